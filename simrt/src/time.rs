//! Simulated `std::time::Instant` reading the calling host's virtual clock.

use std::ops::{Add, AddAssign, Sub, SubAssign};

pub use std::time::*;

use crate::rt;

#[derive(Clone, Copy, Debug, PartialEq, Eq, PartialOrd, Ord, Hash)]
pub struct Instant(u64);

impl Instant {
    pub fn now() -> Instant {
        if rt::in_sim() {
            // one hour after "boot" so that subtracting small durations never underflows
            Instant(3_600_000_000_000 + rt::host_clock_ns())
        } else {
            Instant(3_600_000_000_000)
        }
    }
    pub fn as_nanos(&self) -> u64 {
        self.0
    }
    pub fn elapsed(&self) -> Duration {
        Instant::now() - *self
    }
    pub fn duration_since(&self, earlier: Instant) -> Duration {
        Duration::from_nanos(self.0.saturating_sub(earlier.0))
    }
    pub fn saturating_duration_since(&self, earlier: Instant) -> Duration {
        self.duration_since(earlier)
    }
    pub fn checked_duration_since(&self, earlier: Instant) -> Option<Duration> {
        self.0.checked_sub(earlier.0).map(Duration::from_nanos)
    }
    pub fn checked_add(&self, d: Duration) -> Option<Instant> {
        u64::try_from(d.as_nanos())
            .ok()
            .and_then(|n| self.0.checked_add(n))
            .map(Instant)
    }
    pub fn checked_sub(&self, d: Duration) -> Option<Instant> {
        u64::try_from(d.as_nanos())
            .ok()
            .and_then(|n| self.0.checked_sub(n))
            .map(Instant)
    }
}

impl Add<Duration> for Instant {
    type Output = Instant;
    fn add(self, d: Duration) -> Instant {
        self.checked_add(d)
            .expect("overflow when adding duration to instant")
    }
}
impl AddAssign<Duration> for Instant {
    fn add_assign(&mut self, d: Duration) {
        *self = *self + d;
    }
}
impl Sub<Duration> for Instant {
    type Output = Instant;
    fn sub(self, d: Duration) -> Instant {
        self.checked_sub(d)
            .expect("overflow when subtracting duration from instant")
    }
}
impl SubAssign<Duration> for Instant {
    fn sub_assign(&mut self, d: Duration) {
        *self = *self - d;
    }
}
impl Sub<Instant> for Instant {
    type Output = Duration;
    fn sub(self, o: Instant) -> Duration {
        self.duration_since(o)
    }
}
