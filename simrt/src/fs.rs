//! File seam: a real file underneath, with read sizes chosen by the fault tape (short reads).

use std::io::{self, Read, Seek, SeekFrom};
use std::path::Path;

pub use std::fs::*;

use crate::rt::{self, Fk};

#[derive(Debug)]
pub struct File {
    inner: std::fs::File,
}

pub struct OpenOptions {
    inner: std::fs::OpenOptions,
}

impl OpenOptions {
    pub fn new() -> Self {
        OpenOptions {
            inner: std::fs::OpenOptions::new(),
        }
    }
    pub fn read(&mut self, v: bool) -> &mut Self {
        self.inner.read(v);
        self
    }
    pub fn write(&mut self, v: bool) -> &mut Self {
        self.inner.write(v);
        self
    }
    pub fn append(&mut self, v: bool) -> &mut Self {
        self.inner.append(v);
        self
    }
    pub fn create(&mut self, v: bool) -> &mut Self {
        self.inner.create(v);
        self
    }
    pub fn truncate(&mut self, v: bool) -> &mut Self {
        self.inner.truncate(v);
        self
    }
    pub fn open<P: AsRef<Path>>(&self, path: P) -> io::Result<File> {
        Ok(File {
            inner: self.inner.open(path)?,
        })
    }
}

impl Default for OpenOptions {
    fn default() -> Self {
        Self::new()
    }
}

impl File {
    pub fn open<P: AsRef<Path>>(path: P) -> io::Result<File> {
        Ok(File {
            inner: std::fs::File::open(path)?,
        })
    }
    pub fn create<P: AsRef<Path>>(path: P) -> io::Result<File> {
        Ok(File {
            inner: std::fs::File::create(path)?,
        })
    }
    pub fn options() -> OpenOptions {
        OpenOptions::new()
    }
    pub fn metadata(&self) -> io::Result<Metadata> {
        self.inner.metadata()
    }
}

impl Read for File {
    fn read(&mut self, buf: &mut [u8]) -> io::Result<usize> {
        if buf.len() > 1 && rt::fault_chance(Fk::ShortRead) {
            let n = 1 + rt::fault_draw(buf.len().min(64) as u32) as usize;
            rt::count("file_short_read");
            let m = n.min(buf.len());
            return self.inner.read(&mut buf[..m]);
        }
        self.inner.read(buf)
    }
}

impl Seek for File {
    fn seek(&mut self, pos: SeekFrom) -> io::Result<u64> {
        self.inner.seek(pos)
    }
}

impl io::Write for File {
    fn write(&mut self, buf: &[u8]) -> io::Result<usize> {
        self.inner.write(buf)
    }
    fn flush(&mut self) -> io::Result<()> {
        self.inner.flush()
    }
}
