//! Simulated `std::sync` primitives (only what renoir uses, same signatures).

use std::cell::UnsafeCell;
use std::fmt;
use std::ops::{Deref, DerefMut};
use std::sync::atomic::{AtomicBool, Ordering};
use std::sync::LockResult;

pub use std::sync::*;

use crate::rt::{self, ResId};

pub struct Mutex<T: ?Sized> {
    res: ResId,
    locked: AtomicBool,
    data: UnsafeCell<T>,
}

unsafe impl<T: ?Sized + Send> Send for Mutex<T> {}
unsafe impl<T: ?Sized + Send> Sync for Mutex<T> {}

pub struct MutexGuard<'a, T: ?Sized + 'a> {
    lock: &'a Mutex<T>,
}

impl<T> Mutex<T> {
    pub fn new(t: T) -> Self {
        Mutex {
            res: rt::new_res(),
            locked: AtomicBool::new(false),
            data: UnsafeCell::new(t),
        }
    }

    pub fn into_inner(self) -> LockResult<T> {
        Ok(self.data.into_inner())
    }
}

impl<T: ?Sized> Mutex<T> {
    pub fn lock(&self) -> LockResult<MutexGuard<'_, T>> {
        rt::sched_point("mutex.lock", self.res);
        loop {
            if !self.locked.swap(true, Ordering::AcqRel) {
                return Ok(MutexGuard { lock: self });
            }
            if !rt::in_sim() {
                std::thread::yield_now();
                continue;
            }
            rt::count("mutex_contended");
            rt::block(&[self.res], None, "mutex.lock");
        }
    }

    pub fn try_lock(&self) -> TryLockResult<MutexGuard<'_, T>> {
        if !self.locked.swap(true, Ordering::AcqRel) {
            Ok(MutexGuard { lock: self })
        } else {
            Err(TryLockError::WouldBlock)
        }
    }

    fn unlock(&self) {
        self.locked.store(false, Ordering::Release);
        rt::notify(self.res);
    }
}

impl<T: Default> Default for Mutex<T> {
    fn default() -> Self {
        Mutex::new(T::default())
    }
}

impl<T: ?Sized + fmt::Debug> fmt::Debug for Mutex<T> {
    fn fmt(&self, f: &mut fmt::Formatter<'_>) -> fmt::Result {
        f.debug_struct("SimMutex").finish_non_exhaustive()
    }
}

impl<T: ?Sized> Deref for MutexGuard<'_, T> {
    type Target = T;
    fn deref(&self) -> &T {
        unsafe { &*self.lock.data.get() }
    }
}

impl<T: ?Sized> DerefMut for MutexGuard<'_, T> {
    fn deref_mut(&mut self) -> &mut T {
        unsafe { &mut *self.lock.data.get() }
    }
}

impl<T: ?Sized> Drop for MutexGuard<'_, T> {
    fn drop(&mut self) {
        self.lock.unlock();
    }
}

pub struct Condvar {
    res: ResId,
}

impl Default for Condvar {
    fn default() -> Self {
        Condvar::new()
    }
}

impl fmt::Debug for Condvar {
    fn fmt(&self, f: &mut fmt::Formatter<'_>) -> fmt::Result {
        f.debug_struct("SimCondvar").finish_non_exhaustive()
    }
}

impl Condvar {
    pub fn new() -> Self {
        Condvar { res: rt::new_res() }
    }

    pub fn wait<'a, T>(&self, guard: MutexGuard<'a, T>) -> LockResult<MutexGuard<'a, T>> {
        let lock = guard.lock;
        std::mem::forget(guard);
        lock.unlock();
        rt::block(&[self.res], None, "condvar.wait");
        lock.lock()
    }

    pub fn wait_while<'a, T, F>(
        &self,
        mut guard: MutexGuard<'a, T>,
        mut condition: F,
    ) -> LockResult<MutexGuard<'a, T>>
    where
        F: FnMut(&mut T) -> bool,
    {
        let mut blocked = false;
        while condition(&mut *guard) {
            if !blocked {
                blocked = true;
                rt::count("condvar_wait_blocked");
            }
            guard = self.wait(guard)?;
        }
        Ok(guard)
    }

    pub fn notify_all(&self) {
        rt::notify(self.res);
        rt::sched_point("condvar.notify_all", self.res);
    }

    pub fn notify_one(&self) {
        // waking everybody is a legal implementation (spurious wake-ups are allowed)
        self.notify_all();
    }
}

pub struct Barrier {
    res: ResId,
    n: usize,
    state: std::sync::Mutex<(usize, u64)>,
}

pub struct BarrierWaitResult(bool);

impl BarrierWaitResult {
    pub fn is_leader(&self) -> bool {
        self.0
    }
}

impl fmt::Debug for Barrier {
    fn fmt(&self, f: &mut fmt::Formatter<'_>) -> fmt::Result {
        f.debug_struct("SimBarrier").finish_non_exhaustive()
    }
}

impl Barrier {
    pub fn new(n: usize) -> Self {
        Barrier {
            res: rt::new_res(),
            n,
            state: std::sync::Mutex::new((0, 0)),
        }
    }

    pub fn wait(&self) -> BarrierWaitResult {
        rt::sched_point("barrier.wait", self.res);
        let gen = {
            let mut s = self.state.lock().unwrap();
            s.0 += 1;
            if s.0 >= self.n {
                s.0 = 0;
                s.1 += 1;
                drop(s);
                rt::notify(self.res);
                return BarrierWaitResult(true);
            }
            s.1
        };
        loop {
            rt::block(&[self.res], None, "barrier.wait");
            if self.state.lock().unwrap().1 != gen {
                return BarrierWaitResult(false);
            }
        }
    }
}
