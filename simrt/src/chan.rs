//! Simulated MPMC FIFO channel with the semantics of flume 0.11 that renoir relies on:
//! queued messages are always delivered before `Disconnected` is reported, `send` fails as soon as
//! no receiver is alive, bounded senders block while the queue is full.

use std::collections::VecDeque;
use std::sync::{Arc, Mutex};

use crate::rt::{self, Fk, ResId, Wake};

struct State<T> {
    q: VecDeque<T>,
    senders: usize,
    receivers: usize,
}

pub struct Chan<T> {
    st: Mutex<State<T>>,
    cap: Option<usize>,
    res_recv: ResId,
    res_send: ResId,
}

pub struct Sender<T> {
    ch: Arc<Chan<T>>,
}

pub struct Receiver<T> {
    ch: Arc<Chan<T>>,
}

#[derive(Debug, PartialEq, Eq, Clone, Copy)]
pub enum TryRecv {
    Empty,
    Disconnected,
}

#[derive(Debug, PartialEq, Eq, Clone, Copy)]
pub enum RecvTimeout {
    Timeout,
    Disconnected,
}

pub fn channel<T>(cap: Option<usize>) -> (Sender<T>, Receiver<T>) {
    let ch = Arc::new(Chan {
        st: Mutex::new(State {
            q: VecDeque::new(),
            senders: 1,
            receivers: 1,
        }),
        cap,
        res_recv: rt::new_res(),
        res_send: rt::new_res(),
    });
    (Sender { ch: ch.clone() }, Receiver { ch })
}

impl<T> Sender<T> {
    pub fn send(&self, msg: T) -> Result<(), T> {
        rt::sched_point("chan.send", self.ch.res_recv);
        let bounded = self.ch.cap.is_some();
        if bounded && rt::fault_chance(Fk::NetDrop) {
            return Ok(());
        }
        let mut counted = false;
        loop {
            {
                let mut st = self.ch.st.lock().unwrap();
                if st.receivers == 0 {
                    return Err(msg);
                }
                let full = match self.ch.cap {
                    Some(c) => st.q.len() >= c.max(1),
                    None => false,
                };
                if !full {
                    if bounded && !st.q.is_empty() && rt::fault_chance(Fk::NetReorder) {
                        let last = st.q.len() - 1;
                        st.q.insert(last, msg);
                    } else {
                        st.q.push_back(msg);
                    }
                    drop(st);
                    rt::notify(self.ch.res_recv);
                    return Ok(());
                }
            }
            if !rt::in_sim() {
                std::thread::yield_now();
                continue;
            }
            if !counted {
                counted = true;
                rt::count("send_blocked_on_full_channel");
            }
            rt::block(&[self.ch.res_send], None, "chan.send");
        }
    }

    pub fn try_send(&self, msg: T) -> Result<(), (T, bool)> {
        rt::sched_point("chan.try_send", self.ch.res_recv);
        let mut st = self.ch.st.lock().unwrap();
        if st.receivers == 0 {
            return Err((msg, true));
        }
        let full = match self.ch.cap {
            Some(c) => st.q.len() >= c.max(1),
            None => false,
        };
        if full {
            return Err((msg, false));
        }
        st.q.push_back(msg);
        drop(st);
        rt::notify(self.ch.res_recv);
        Ok(())
    }

    pub fn len(&self) -> usize {
        self.ch.st.lock().unwrap().q.len()
    }

    pub fn is_disconnected(&self) -> bool {
        self.ch.st.lock().unwrap().receivers == 0
    }

    pub fn res_id(&self) -> ResId {
        self.ch.res_recv
    }
}

impl<T: Clone> Sender<T> {
    /// substrate-contract breaker for oracle self-tests: deliver the message twice
    pub fn send_maybe_dup(&self, msg: T) -> Result<(), T> {
        if self.ch.cap.is_some() && rt::fault_chance(Fk::NetDup) {
            let _ = self.send(msg.clone());
        }
        self.send(msg)
    }
}

impl<T> Clone for Sender<T> {
    fn clone(&self) -> Self {
        self.ch.st.lock().unwrap().senders += 1;
        Sender {
            ch: self.ch.clone(),
        }
    }
}

impl<T> Drop for Sender<T> {
    fn drop(&mut self) {
        let last = {
            let mut st = self.ch.st.lock().unwrap();
            st.senders -= 1;
            st.senders == 0
        };
        if last {
            rt::notify(self.ch.res_recv);
        }
    }
}

impl<T> Receiver<T> {
    fn poll(&self) -> Result<T, TryRecv> {
        let mut st = self.ch.st.lock().unwrap();
        if let Some(x) = st.q.pop_front() {
            drop(st);
            rt::notify(self.ch.res_send);
            return Ok(x);
        }
        if st.senders == 0 {
            Err(TryRecv::Disconnected)
        } else {
            Err(TryRecv::Empty)
        }
    }

    pub fn try_recv(&self) -> Result<T, TryRecv> {
        rt::sched_point("chan.try_recv", self.ch.res_recv);
        self.poll()
    }

    pub fn recv(&self) -> Result<T, ()> {
        rt::sched_point("chan.recv", self.ch.res_recv);
        loop {
            match self.poll() {
                Ok(x) => return Ok(x),
                Err(TryRecv::Disconnected) => return Err(()),
                Err(TryRecv::Empty) => {}
            }
            if !rt::in_sim() {
                std::thread::yield_now();
                continue;
            }
            rt::block(&[self.ch.res_recv], None, "chan.recv");
        }
    }

    /// `local_ns` is measured on the calling host's clock.
    pub fn recv_timeout_ns(&self, local_ns: u64) -> Result<T, RecvTimeout> {
        rt::sched_point("chan.recv_timeout", self.ch.res_recv);
        let deadline = rt::deadline_after(local_ns);
        loop {
            match self.poll() {
                Ok(x) => return Ok(x),
                Err(TryRecv::Disconnected) => return Err(RecvTimeout::Disconnected),
                Err(TryRecv::Empty) => {}
            }
            if !rt::in_sim() {
                return Err(RecvTimeout::Timeout);
            }
            if rt::block(&[self.ch.res_recv], Some(deadline), "chan.recv_timeout") == Wake::Timeout
            {
                // a message that arrived at the very same instant still wins
                return match self.poll() {
                    Ok(x) => Ok(x),
                    Err(TryRecv::Disconnected) => Err(RecvTimeout::Disconnected),
                    Err(TryRecv::Empty) => {
                        rt::count("recv_timeout_fired");
                        Err(RecvTimeout::Timeout)
                    }
                };
            }
        }
    }

    /// ready = a message is queued, or the channel is empty and disconnected
    pub fn is_ready(&self) -> bool {
        let st = self.ch.st.lock().unwrap();
        !st.q.is_empty() || st.senders == 0
    }

    pub fn poll_ready(&self) -> Result<T, TryRecv> {
        self.poll()
    }

    pub fn len(&self) -> usize {
        self.ch.st.lock().unwrap().q.len()
    }

    pub fn is_empty(&self) -> bool {
        self.len() == 0
    }

    pub fn is_disconnected(&self) -> bool {
        self.ch.st.lock().unwrap().senders == 0
    }

    pub fn res_id(&self) -> ResId {
        self.ch.res_recv
    }
}

impl<T> Clone for Receiver<T> {
    fn clone(&self) -> Self {
        self.ch.st.lock().unwrap().receivers += 1;
        Receiver {
            ch: self.ch.clone(),
        }
    }
}

impl<T> Drop for Receiver<T> {
    fn drop(&mut self) {
        let last = {
            let mut st = self.ch.st.lock().unwrap();
            st.receivers -= 1;
            st.receivers == 0
        };
        if last {
            // flume drops the queued messages when the last receiver goes away
            let drained: Vec<T> = {
                let mut st = self.ch.st.lock().unwrap();
                st.q.drain(..).collect()
            };
            drop(drained);
            rt::notify(self.ch.res_send);
        }
    }
}

/// Block until one of the resources is notified or the deadline (host-local ns from now) passes.
pub fn wait_any(res: &[ResId], deadline: Option<u64>, what: &'static str) -> Wake {
    rt::block(res, deadline, what)
}
