//! The deterministic scheduler: real OS threads, exactly one of which holds the baton.
//!
//! Every intercepted operation (channel, mutex, condvar, barrier, socket, sleep, spawn, join) enters
//! the simulator through `sched_point`/`block`, which decide from the schedule tape who runs next.
//! Code between two intercepted operations is atomic. Virtual time only moves here.

use std::cell::RefCell;
use std::collections::BTreeMap;
use std::sync::atomic::{AtomicBool, AtomicU64, Ordering};
use std::sync::{Arc, Condvar, Mutex};

use crate::tape::Tape;

pub type ResId = u64;

/// Fault / choice kinds. Each has a rate (permille, 0 = disabled for this run) and a fired counter.
#[derive(Clone, Copy, Debug, PartialEq, Eq)]
#[repr(usize)]
pub enum Fk {
    ExecCost = 0,
    Stall,
    Weight,
    ClockSkew,
    TcpSegment,
    TcpEintr,
    TcpLatency,
    TcpSmallBuf,
    ConnRefused,
    ConnTimeout,
    AcceptOrder,
    SelectBias,
    SenderOrder,
    ShortRead,
    UserPanic,
    // substrate-contract breakers: only for oracle self-tests, never in verdict runs
    NetDrop,
    NetDup,
    NetReorder,
    Count,
}

pub const FK_NAMES: [&str; Fk::Count as usize] = [
    "exec_cost",
    "stall",
    "weight",
    "clock_skew",
    "tcp_segment",
    "tcp_eintr",
    "tcp_latency",
    "tcp_small_buffer",
    "connect_refused",
    "connect_timeout",
    "accept_order",
    "select_bias",
    "sender_order",
    "short_read",
    "user_panic",
    "net_drop",
    "net_dup",
    "net_reorder",
];

#[derive(Clone, Debug)]
pub struct HostClock {
    /// offset added to the global virtual clock, ns
    pub offset_ns: u64,
    /// clock rate in parts per thousand of the global rate (1000 = exact)
    pub rate_permille: u32,
}

impl Default for HostClock {
    fn default() -> Self {
        HostClock {
            offset_ns: 0,
            rate_permille: 1000,
        }
    }
}

#[derive(Clone, Debug)]
pub struct SimConfig {
    pub max_steps: u64,
    pub max_vtime_ns: u64,
    pub switch_permille: u32,
    pub step_cost_ns: u64,
    pub rates: [u32; Fk::Count as usize],
    pub hosts: Vec<HostClock>,
    pub watchdog_real_ms: u64,
    /// mean number of scheduling points between two exec-cost events
    pub exec_cost_mean_gap: u32,
    /// cap for a single injected delay (stall / exec cost), ns
    pub max_delay_ns: u64,
    /// cap for a single exec-cost event (charged to the global clock), ns
    pub max_exec_cost_ns: u64,
    /// PCT-style scheduling (Burckhardt et al.): 0 = off (weighted random walk); d > 0 = strict
    /// random thread priorities with d priority-change points drawn in `0..pct_span` steps
    pub pct_depth: u32,
    pub pct_span: u32,
}

impl Default for SimConfig {
    fn default() -> Self {
        SimConfig {
            max_steps: 2_000_000,
            max_vtime_ns: 3_600_000_000_000,
            switch_permille: 300,
            step_cost_ns: 200,
            rates: [0; Fk::Count as usize],
            hosts: vec![],
            watchdog_real_ms: 400_000,
            exec_cost_mean_gap: 64,
            max_delay_ns: 2_000_000_000,
            max_exec_cost_ns: 20_000_000,
            pct_depth: 0,
            pct_span: 2000,
        }
    }
}

impl SimConfig {
    pub fn rate(&self, k: Fk) -> u32 {
        self.rates[k as usize]
    }
    pub fn set_rate(&mut self, k: Fk, permille: u32) {
        self.rates[k as usize] = permille;
    }
}

#[derive(Clone, Debug, PartialEq, Eq)]
pub enum Verdict {
    Completed,
    /// no runnable thread, no pending timer, some thread alive
    Deadlock,
    /// step or virtual-time budget exhausted
    Budget,
    /// the real-time watchdog fired: a blocking call escaped the seams (harness error)
    Watchdog,
}

#[derive(Clone, Debug)]
pub struct ThreadReport {
    pub id: usize,
    pub name: String,
    pub host: u32,
    pub finished: bool,
    pub panicked: Option<String>,
    pub blocked_on: Option<(String, Vec<ResId>)>,
    pub steps: u64,
    /// kind of the last intercepted operation, and how many of the thread's last steps were of
    /// that kind in a row
    pub last_op: &'static str,
    pub last_op_run: u64,
}

#[derive(Clone, Debug)]
pub struct Outcome {
    pub verdict: Verdict,
    pub steps: u64,
    pub vtime_ns: u64,
    pub switches: u64,
    pub log_hash: u64,
    pub sched_hash: u64,
    pub fired: [u64; Fk::Count as usize],
    pub counters: BTreeMap<String, u64>,
    pub threads: Vec<ThreadReport>,
    pub sched_tape: Vec<u32>,
    pub fault_tape: Vec<u32>,
    pub progress_since_last_window: bool,
}

impl Outcome {
    /// the threads that took the most scheduling steps (who was spinning when a budget ran out)
    pub fn budget_report(&self) -> String {
        let mut t: Vec<&ThreadReport> = self.threads.iter().filter(|t| !t.finished).collect();
        t.sort_by_key(|t| std::cmp::Reverse(t.steps));
        let mut s = String::new();
        for t in t.iter().take(5) {
            s.push_str(&format!(
                "  #{} {} (host {}): {} steps, last operation {} x{}{}\n",
                t.id,
                t.name,
                t.host,
                t.steps,
                t.last_op,
                t.last_op_run,
                match &t.blocked_on {
                    Some((w, _)) => format!(", now blocked in {}", w),
                    None => ", runnable".to_string(),
                }
            ));
        }
        s
    }

    pub fn deadlock_report(&self) -> String {
        let mut s = String::new();
        for t in &self.threads {
            if !t.finished {
                if let Some((what, on)) = &t.blocked_on {
                    s.push_str(&format!(
                        "  #{} {} (host {}) blocked in {} on {:?}\n",
                        t.id, t.name, t.host, what, on
                    ));
                } else {
                    s.push_str(&format!("  #{} {} (host {}) runnable\n", t.id, t.name, t.host));
                }
            }
        }
        s
    }
}

#[derive(Clone, Copy, Debug, PartialEq, Eq)]
pub enum Wake {
    None,
    Notified,
    Timeout,
}

enum St {
    Runnable,
    Blocked {
        on: Vec<ResId>,
        deadline: Option<u64>,
        what: &'static str,
    },
    Finished,
}

struct Slot {
    name: String,
    host: u32,
    state: St,
    wake: Wake,
    os: Option<std::thread::Thread>,
    go: Arc<AtomicBool>,
    steps: u64,
    stall: Option<(u64, u64)>,
    weight: u32,
    /// PCT priority (only read when `pct_depth > 0`)
    prio: u64,
    last_op: &'static str,
    last_op_run: u64,
    done_res: ResId,
    panicked: Option<String>,
}

struct Core {
    cfg: SimConfig,
    slots: Vec<Slot>,
    cur: usize,
    now: u64,
    steps: u64,
    switches: u64,
    next_res: ResId,
    sched: Tape,
    fault: Tape,
    log_hash: u64,
    sched_hash: u64,
    fired: [u64; Fk::Count as usize],
    counters: BTreeMap<String, u64>,
    verdict: Option<Verdict>,
    dead: bool,
    alive: usize,
    next_cost_in: u64,
    min_deadline: u64,
    progress_mark: u64,
    progress_events: u64,
    progress_window_ok: bool,
    /// PCT: steps at which the running thread drops below everybody, next low priority
    pct_points: Vec<u64>,
    pct_low: u64,
}

pub struct Shared {
    core: Mutex<Core>,
    done: (Mutex<bool>, Condvar),
}

thread_local! {
    static CTX: RefCell<Option<(Arc<Shared>, usize)>> = const { RefCell::new(None) };
}

static OUTSIDE_RES: AtomicU64 = AtomicU64::new(1 << 48);

fn ctx() -> Option<(Arc<Shared>, usize)> {
    CTX.with(|c| c.borrow().clone())
}

pub fn in_sim() -> bool {
    CTX.with(|c| c.borrow().is_some())
}

#[inline]
fn fnv(h: u64, x: u64) -> u64 {
    let mut h = h;
    for i in 0..8 {
        h ^= (x >> (i * 8)) & 0xff;
        h = h.wrapping_mul(0x0000_0100_0000_01B3);
    }
    h
}

fn kind_hash(kind: &'static str) -> u64 {
    let mut h = 0xcbf2_9ce4_8422_2325u64;
    for b in kind.bytes() {
        h ^= b as u64;
        h = h.wrapping_mul(0x0000_0100_0000_01B3);
    }
    h
}

const DELAYS_NS: [u64; 9] = [
    1_000,
    10_000,
    100_000,
    1_000_000,
    3_000_000,
    10_000_000,
    60_000_000,
    300_000_000,
    2_000_000_000,
];

impl Core {
    fn delay_magnitude(&mut self) -> u64 {
        let base = DELAYS_NS[self.fault.draw(DELAYS_NS.len() as u32) as usize];
        let jitter = self.fault.draw(1000) as u64;
        (base + base * jitter / 1000).min(self.cfg.max_delay_ns)
    }

    fn step(&mut self, me: usize, kind: &'static str, res: ResId) {
        self.steps += 1;
        self.slots[me].steps += 1;
        if self.slots[me].last_op == kind {
            self.slots[me].last_op_run += 1;
        } else {
            self.slots[me].last_op = kind;
            self.slots[me].last_op_run = 1;
        }
        self.now += self.cfg.step_cost_ns;
        if self.cfg.pct_depth > 0 && self.pct_points.contains(&self.steps) {
            self.slots[me].prio = self.pct_low;
            self.pct_low = self.pct_low.saturating_sub(1);
            *self.counters.entry("pct_priority_change_point_hit".to_string()).or_insert(0) += 1;
        }
        if self.cfg.rate(Fk::ExecCost) > 0 {
            if self.next_cost_in == 0 {
                // the cost is charged to the global clock (everybody is late by it): keep single
                // events short, long pauses are what per-thread stalls are for
                let d = self.delay_magnitude().min(self.cfg.max_exec_cost_ns);
                self.now += d;
                self.fired[Fk::ExecCost as usize] += 1;
                self.next_cost_in = 1 + self.fault.draw(2 * self.cfg.exec_cost_mean_gap) as u64;
            } else {
                self.next_cost_in -= 1;
            }
        }
        let mut h = self.log_hash;
        h = fnv(h, me as u64);
        h = fnv(h, kind_hash(kind));
        h = fnv(h, res);
        h = fnv(h, self.now);
        self.log_hash = h;
        self.expire();
        if self.steps % 100_000 == 0 {
            // did any link delivery happen in the last 100k scheduling points?
            self.progress_window_ok = self.progress_events > self.progress_mark;
            self.progress_mark = self.progress_events;
        }
        if self.steps > self.cfg.max_steps || self.now > self.cfg.max_vtime_ns {
            self.verdict = Some(Verdict::Budget);
            self.dead = true;
        }
    }

    fn expire(&mut self) {
        if self.now < self.min_deadline {
            return;
        }
        let now = self.now;
        let mut min = u64::MAX;
        for s in self.slots.iter_mut() {
            if let St::Blocked {
                deadline: Some(d), ..
            } = s.state
            {
                if d <= now {
                    s.state = St::Runnable;
                    s.wake = Wake::Timeout;
                } else {
                    min = min.min(d);
                }
            }
        }
        self.min_deadline = min;
    }

    fn notify(&mut self, res: ResId) {
        for s in self.slots.iter_mut() {
            if let St::Blocked { on, .. } = &s.state {
                if on.contains(&res) {
                    s.state = St::Runnable;
                    s.wake = Wake::Notified;
                }
            }
        }
    }

    /// Decide who runs next. `None` means the simulation is over (verdict set).
    fn choose(&mut self, me: usize) -> Option<usize> {
        loop {
            let me_runnable = matches!(self.slots[me].state, St::Runnable);
            let mut others: Vec<usize> = Vec::new();
            for (i, s) in self.slots.iter().enumerate() {
                if i != me && matches!(s.state, St::Runnable) {
                    others.push(i);
                }
            }
            if self.cfg.pct_depth > 0 && (me_runnable || !others.is_empty()) {
                // strict priorities; ties go to the lowest id
                let mut best = if me_runnable { Some(me) } else { None };
                for &i in &others {
                    best = match best {
                        None => Some(i),
                        Some(b) => {
                            let (pb, pi) = (self.slots[b].prio, self.slots[i].prio);
                            if pi > pb || (pi == pb && i < b) {
                                Some(i)
                            } else {
                                Some(b)
                            }
                        }
                    };
                }
                return best;
            }
            if me_runnable {
                if others.is_empty() {
                    return Some(me);
                }
                let sw = self.cfg.switch_permille;
                if !self.sched.chance(sw) {
                    return Some(me);
                }
            }
            if !others.is_empty() {
                let total: u32 = others.iter().map(|&i| self.slots[i].weight).sum();
                let mut v = self.sched.draw(total);
                for &i in &others {
                    let w = self.slots[i].weight;
                    if v < w {
                        return Some(i);
                    }
                    v -= w;
                }
                return Some(others[0]);
            }
            // nothing runnable: jump the clock to the earliest deadline
            let mut min = u64::MAX;
            for s in self.slots.iter() {
                if let St::Blocked {
                    deadline: Some(d), ..
                } = s.state
                {
                    min = min.min(d);
                }
            }
            if min == u64::MAX {
                if self.verdict.is_none() {
                    self.verdict = Some(if self.alive == 0 {
                        Verdict::Completed
                    } else {
                        Verdict::Deadlock
                    });
                }
                self.dead = true;
                return None;
            }
            if min > self.now {
                self.now = min;
            }
            self.min_deadline = 0;
            self.expire();
            if self.now > self.cfg.max_vtime_ns {
                self.verdict = Some(Verdict::Budget);
                self.dead = true;
                return None;
            }
        }
    }
}

fn park_forever() -> ! {
    loop {
        std::thread::park();
    }
}

fn wait_go(go: &AtomicBool) {
    while !go.swap(false, Ordering::AcqRel) {
        std::thread::park();
    }
}

fn signal_done(sh: &Shared) {
    let mut d = sh.done.0.lock().unwrap();
    *d = true;
    sh.done.1.notify_all();
}

/// Hand the baton to `next` (already chosen under the core lock, which must have been released).
fn handoff(sh: &Arc<Shared>, me: usize, next: usize, my_go: &Arc<AtomicBool>, park_self: bool) {
    if next != me {
        let (go, os) = {
            let mut c = sh.core.lock().unwrap();
            c.cur = next;
            c.switches += 1;
            c.sched_hash = fnv(c.sched_hash, next as u64);
            let s = &c.slots[next];
            (s.go.clone(), s.os.clone())
        };
        go.store(true, Ordering::Release);
        if let Some(os) = os {
            os.unpark();
        }
        if park_self {
            wait_go(my_go);
        }
    }
}

fn after_choice(sh: &Arc<Shared>, me: usize, choice: Option<usize>, my_go: Arc<AtomicBool>) {
    match choice {
        Some(n) => handoff(sh, me, n, &my_go, true),
        None => {
            signal_done(sh);
            park_forever();
        }
    }
}

/// A scheduling point: the calling thread stays runnable, somebody else may run first.
pub fn sched_point(kind: &'static str, res: ResId) {
    let Some((sh, me)) = ctx() else { return };
    let (choice, go) = {
        let mut c = sh.core.lock().unwrap();
        if c.dead {
            drop(c);
            park_forever();
        }
        c.step(me, kind, res);
        if c.dead {
            drop(c);
            signal_done(&sh);
            park_forever();
        }
        // injected stall of this thread
        if let Some((at, dur)) = c.slots[me].stall {
            if c.slots[me].steps >= at {
                c.slots[me].stall = None;
                c.fired[Fk::Stall as usize] += 1;
                let d = c.now + dur;
                c.slots[me].state = St::Blocked {
                    on: vec![],
                    deadline: Some(d),
                    what: "stall",
                };
                c.min_deadline = c.min_deadline.min(d);
            }
        }
        let ch = c.choose(me);
        (ch, c.slots[me].go.clone())
    };
    after_choice(&sh, me, choice, go);
}

/// Block the calling thread until one of `on` is notified or the (global-clock) deadline passes.
pub fn block(on: &[ResId], deadline: Option<u64>, what: &'static str) -> Wake {
    let Some((sh, me)) = ctx() else {
        panic!("simrt: blocking operation `{what}` outside a simulation");
    };
    let (choice, go) = {
        let mut c = sh.core.lock().unwrap();
        if c.dead {
            drop(c);
            park_forever();
        }
        c.step(me, what, on.first().copied().unwrap_or(0));
        if c.dead {
            drop(c);
            signal_done(&sh);
            park_forever();
        }
        c.slots[me].wake = Wake::None;
        if let Some(d) = deadline {
            if d <= c.now {
                c.slots[me].wake = Wake::Timeout;
            }
        }
        if c.slots[me].wake == Wake::None {
            c.slots[me].state = St::Blocked {
                on: on.to_vec(),
                deadline,
                what,
            };
            if let Some(d) = deadline {
                c.min_deadline = c.min_deadline.min(d);
            }
        }
        let ch = c.choose(me);
        (ch, c.slots[me].go.clone())
    };
    after_choice(&sh, me, choice, go);
    let c = sh.core.lock().unwrap();
    c.slots[me].wake
}

pub fn notify(res: ResId) {
    if let Some((sh, _)) = ctx() {
        sh.core.lock().unwrap().notify(res);
    }
}

pub fn new_res() -> ResId {
    match ctx() {
        Some((sh, _)) => {
            let mut c = sh.core.lock().unwrap();
            c.next_res += 1;
            c.next_res
        }
        None => OUTSIDE_RES.fetch_add(1, Ordering::Relaxed),
    }
}

/// Global virtual time in ns.
pub fn now_ns() -> u64 {
    match ctx() {
        Some((sh, _)) => sh.core.lock().unwrap().now,
        None => 0,
    }
}

/// The calling host's clock reading in ns (offset and rate skew applied).
pub fn host_clock_ns() -> u64 {
    match ctx() {
        Some((sh, me)) => {
            let c = sh.core.lock().unwrap();
            let h = c.slots[me].host as usize;
            match c.cfg.hosts.get(h) {
                Some(hc) => hc.offset_ns + c.now / 1000 * hc.rate_permille as u64
                    + (c.now % 1000) * hc.rate_permille as u64 / 1000,
                None => c.now,
            }
        }
        None => 0,
    }
}

/// Convert a duration measured on the calling host's clock into a global-clock deadline.
pub fn deadline_after(local_ns: u64) -> u64 {
    match ctx() {
        Some((sh, me)) => {
            let c = sh.core.lock().unwrap();
            let h = c.slots[me].host as usize;
            let rate = c.cfg.hosts.get(h).map(|h| h.rate_permille).unwrap_or(1000) as u64;
            let g = (local_ns as u128 * 1000 / rate as u128) as u64;
            // round up so that the host clock has really advanced by `local_ns` at the deadline
            c.now.saturating_add(g).saturating_add(1)
        }
        None => 0,
    }
}

pub fn current_host() -> u32 {
    match ctx() {
        Some((sh, me)) => sh.core.lock().unwrap().slots[me].host,
        None => 0,
    }
}

pub fn current_thread_id() -> usize {
    ctx().map(|(_, me)| me).unwrap_or(usize::MAX)
}

pub fn current_thread_name() -> String {
    match ctx() {
        Some((sh, me)) => sh.core.lock().unwrap().slots[me].name.clone(),
        None => "outside".into(),
    }
}

pub fn rate(k: Fk) -> u32 {
    match ctx() {
        Some((sh, _)) => sh.core.lock().unwrap().cfg.rate(k),
        None => 0,
    }
}

/// Fault-tape coin for `k` at its configured rate. Counts as fired when true.
pub fn fault_chance(k: Fk) -> bool {
    match ctx() {
        Some((sh, _)) => {
            let mut c = sh.core.lock().unwrap();
            let r = c.cfg.rate(k);
            if r == 0 {
                return false;
            }
            let f = c.fault.chance(r);
            if f {
                c.fired[k as usize] += 1;
            }
            f
        }
        None => false,
    }
}

pub fn fault_draw(n: u32) -> u32 {
    match ctx() {
        Some((sh, _)) => sh.core.lock().unwrap().fault.draw(n),
        None => 0,
    }
}

pub fn fault_delay() -> u64 {
    match ctx() {
        Some((sh, _)) => sh.core.lock().unwrap().delay_magnitude(),
        None => 0,
    }
}

pub fn sched_draw(n: u32) -> u32 {
    match ctx() {
        Some((sh, _)) => sh.core.lock().unwrap().sched.draw(n),
        None => 0,
    }
}

pub fn fired(k: Fk) {
    if let Some((sh, _)) = ctx() {
        sh.core.lock().unwrap().fired[k as usize] += 1;
    }
}

/// Reach probe / generic counter.
pub fn count(name: &str) {
    if let Some((sh, _)) = ctx() {
        *sh.core
            .lock()
            .unwrap()
            .counters
            .entry(name.to_string())
            .or_insert(0) += 1;
    }
}

/// Mark that the job made progress (a link delivery); used to tell livelock from a long run.
pub fn progress() {
    if let Some((sh, _)) = ctx() {
        sh.core.lock().unwrap().progress_events += 1;
    }
}

// ---------------------------------------------------------------------------------------------
// OS thread pool
// ---------------------------------------------------------------------------------------------

type Job = Box<dyn FnOnce() + Send + 'static>;

struct PoolWorker {
    tx: std::sync::mpsc::Sender<Job>,
    thread: std::thread::Thread,
}

static POOL: Mutex<Vec<PoolWorker>> = Mutex::new(Vec::new());
static POOL_CREATED: AtomicU64 = AtomicU64::new(0);

pub fn pool_threads_created() -> u64 {
    POOL_CREATED.load(Ordering::Relaxed)
}

fn pool_take() -> PoolWorker {
    if let Some(w) = POOL.lock().unwrap().pop() {
        return w;
    }
    let (tx, rx) = std::sync::mpsc::channel::<Job>();
    let tx2 = tx.clone();
    POOL_CREATED.fetch_add(1, Ordering::Relaxed);
    let h = std::thread::Builder::new()
        .stack_size(std::env::var("SIMRT_STACK_KB").ok().and_then(|s| s.parse::<usize>().ok()).unwrap_or(4096) << 10)
        .name("simrt-pool".into())
        .spawn(move || {
            for job in rx {
                job();
                POOL.lock().unwrap().push(PoolWorker {
                    tx: tx2.clone(),
                    thread: std::thread::current(),
                });
            }
        })
        .expect("simrt: cannot create OS thread");
    PoolWorker {
        tx,
        thread: h.thread().clone(),
    }
}

// ---------------------------------------------------------------------------------------------
// threads
// ---------------------------------------------------------------------------------------------

pub struct JoinHandle<T> {
    result: Arc<Mutex<Option<std::thread::Result<T>>>>,
    tid: usize,
    done_res: ResId,
}

impl<T> JoinHandle<T> {
    pub fn join(self) -> std::thread::Result<T> {
        loop {
            if let Some(r) = self.result.lock().unwrap().take() {
                return r;
            }
            let fin = match ctx() {
                Some((sh, _)) => matches!(sh.core.lock().unwrap().slots[self.tid].state, St::Finished),
                None => panic!("simrt: join outside a simulation"),
            };
            if fin {
                // finished but result not there: cannot happen (result is stored before finish)
                panic!("simrt: joined thread finished without a result");
            }
            block(&[self.done_res], None, "join");
        }
    }

    pub fn is_finished(&self) -> bool {
        self.result.lock().unwrap().is_some()
    }

    pub fn sim_thread_id(&self) -> usize {
        self.tid
    }
}

pub fn panic_message(p: &(dyn std::any::Any + Send)) -> String {
    if let Some(s) = p.downcast_ref::<&'static str>() {
        (*s).to_string()
    } else if let Some(s) = p.downcast_ref::<String>() {
        s.clone()
    } else {
        "<non-string panic payload>".to_string()
    }
}

fn launch<T, F>(sh: &Arc<Shared>, tid: usize, go: Arc<AtomicBool>, f: F, result: Arc<Mutex<Option<std::thread::Result<T>>>>)
where
    F: FnOnce() -> T + Send + 'static,
    T: Send + 'static,
{
    let worker = pool_take();
    {
        let mut c = sh.core.lock().unwrap();
        c.slots[tid].os = Some(worker.thread.clone());
    }
    let sh2 = sh.clone();
    let job: Job = Box::new(move || {
        CTX.with(|c| *c.borrow_mut() = Some((sh2.clone(), tid)));
        wait_go(&go);
        let r = std::panic::catch_unwind(std::panic::AssertUnwindSafe(f));
        let msg = r.as_ref().err().map(|p| panic_message(p.as_ref()));
        *result.lock().unwrap() = Some(r);
        drop(result);
        finish(&sh2, tid, msg);
        CTX.with(|c| *c.borrow_mut() = None);
    });
    worker.tx.send(job).expect("simrt: pool worker vanished");
}

fn finish(sh: &Arc<Shared>, me: usize, panicked: Option<String>) {
    let choice = {
        let mut c = sh.core.lock().unwrap();
        if c.dead {
            drop(c);
            park_forever();
        }
        c.step(me, "exit", 0);
        c.slots[me].state = St::Finished;
        c.slots[me].panicked = panicked;
        c.alive -= 1;
        let dr = c.slots[me].done_res;
        c.notify(dr);
        if c.dead {
            None
        } else {
            c.choose(me)
        }
    };
    match choice {
        Some(n) => {
            let go = Arc::new(AtomicBool::new(false));
            handoff(sh, me, n, &go, false);
        }
        None => signal_done(sh),
    }
}

/// Spawn a simulated thread on `host` (None = inherit the caller's host).
pub fn spawn_on<T, F>(name: String, host: Option<u32>, f: F) -> JoinHandle<T>
where
    F: FnOnce() -> T + Send + 'static,
    T: Send + 'static,
{
    let Some((sh, me)) = ctx() else {
        panic!("simrt: spawn outside a simulation");
    };
    let result = Arc::new(Mutex::new(None));
    let go = Arc::new(AtomicBool::new(false));
    let (tid, done_res) = {
        let mut c = sh.core.lock().unwrap();
        c.next_res += 1;
        let done_res = c.next_res;
        let host = host.unwrap_or(c.slots[me].host);
        let mut stall = None;
        let sr = c.cfg.rate(Fk::Stall);
        if sr > 0 && c.fault.chance(sr) {
            let at = 1 + c.fault.draw(400) as u64;
            let dur = c.delay_magnitude();
            stall = Some((at, dur));
        }
        let mut weight = 8;
        let wr = c.cfg.rate(Fk::Weight);
        if wr > 0 && c.fault.chance(wr) {
            weight = [1u32, 2, 32, 64][c.fault.draw(4) as usize];
            c.fired[Fk::Weight as usize] += 1;
        }
        let prio = if c.cfg.pct_depth > 0 { 1_000_000 + c.sched.draw(1_000_000) as u64 } else { 0 };
        c.slots.push(Slot {
            name,
            host,
            state: St::Runnable,
            wake: Wake::None,
            os: None,
            go: go.clone(),
            steps: 0,
            stall,
            weight,
            prio,
            last_op: "",
            last_op_run: 0,
            done_res,
            panicked: None,
        });
        c.alive += 1;
        (c.slots.len() - 1, done_res)
    };
    launch(&sh, tid, go, f, result.clone());
    sched_point("spawn", done_res);
    JoinHandle {
        result,
        tid,
        done_res,
    }
}

/// Make the calling thread wait `ns` of *global* virtual time.
pub fn sleep_global(ns: u64) {
    if !in_sim() {
        return;
    }
    let d = now_ns().saturating_add(ns);
    loop {
        if block(&[], Some(d), "sleep") == Wake::Timeout {
            return;
        }
    }
}

/// Sleep for `local_ns` measured on the calling host's clock.
pub fn sleep_local(local_ns: u64) {
    if !in_sim() {
        return;
    }
    let d = deadline_after(local_ns);
    loop {
        if block(&[], Some(d), "sleep") == Wake::Timeout {
            return;
        }
    }
}

pub fn yield_now() {
    sched_point("yield", 0);
}

/// Run `root` as simulated thread 0 and drive the simulation to its verdict.
pub fn run<F>(cfg: SimConfig, sched: Tape, fault: Tape, root: F) -> Outcome
where
    F: FnOnce() + Send + 'static,
{
    assert!(!in_sim(), "simrt: nested simulation");
    let go = Arc::new(AtomicBool::new(false));
    let watchdog = cfg.watchdog_real_ms;
    let core = Core {
        cfg,
        slots: vec![Slot {
            name: "root".into(),
            host: 0,
            state: St::Runnable,
            wake: Wake::None,
            os: None,
            go: go.clone(),
            steps: 0,
            stall: None,
            weight: 8,
            prio: 1_500_000,
            last_op: "",
            last_op_run: 0,
            done_res: 1,
            panicked: None,
        }],
        cur: 0,
        now: 0,
        steps: 0,
        switches: 0,
        next_res: 1,
        sched,
        fault,
        log_hash: 0xcbf2_9ce4_8422_2325,
        sched_hash: 0xcbf2_9ce4_8422_2325,
        fired: [0; Fk::Count as usize],
        counters: BTreeMap::new(),
        verdict: None,
        dead: false,
        alive: 1,
        next_cost_in: 0,
        min_deadline: u64::MAX,
        progress_mark: 0,
        progress_events: 0,
        progress_window_ok: true,
        pct_points: vec![],
        pct_low: 999_999,
    };
    let mut core = core;
    if core.cfg.pct_depth > 0 {
        let span = core.cfg.pct_span.max(1);
        core.counters.insert("run_scheduled_pct_style".to_string(), 1);
        for _ in 0..core.cfg.pct_depth {
            let p = 1 + core.sched.draw(span) as u64;
            core.pct_points.push(p);
        }
    }
    let sh = Arc::new(Shared {
        core: Mutex::new(core),
        done: (Mutex::new(false), Condvar::new()),
    });
    let result: Arc<Mutex<Option<std::thread::Result<()>>>> = Arc::new(Mutex::new(None));
    launch(&sh, 0, go.clone(), root, result);
    // start the root
    {
        let os = sh.core.lock().unwrap().slots[0].os.clone();
        go.store(true, Ordering::Release);
        if let Some(os) = os {
            os.unpark();
        }
    }
    let start = std::time::Instant::now();
    let mut timed_out = false;
    {
        let mut d = sh.done.0.lock().unwrap();
        while !*d {
            let left = (watchdog as u128).saturating_sub(start.elapsed().as_millis());
            if left == 0 {
                timed_out = true;
                break;
            }
            let (g, _) = sh
                .done
                .1
                .wait_timeout(d, std::time::Duration::from_millis(left.min(1000) as u64))
                .unwrap();
            d = g;
        }
    }
    let mut c = sh.core.lock().unwrap();
    if timed_out {
        c.dead = true;
        c.verdict = Some(Verdict::Watchdog);
    }
    let threads = c
        .slots
        .iter()
        .enumerate()
        .map(|(i, s)| ThreadReport {
            id: i,
            name: s.name.clone(),
            host: s.host,
            finished: matches!(s.state, St::Finished),
            panicked: s.panicked.clone(),
            blocked_on: match &s.state {
                St::Blocked { on, what, .. } => Some((what.to_string(), on.clone())),
                _ => None,
            },
            steps: s.steps,
            last_op: s.last_op,
            last_op_run: s.last_op_run,
        })
        .collect();

    Outcome {
        verdict: c.verdict.clone().unwrap_or(Verdict::Completed),
        steps: c.steps,
        vtime_ns: c.now,
        switches: c.switches,
        log_hash: c.log_hash,
        sched_hash: c.sched_hash,
        fired: c.fired,
        counters: c.counters.clone(),
        threads,
        sched_tape: c.sched.consumed(),
        fault_tape: c.fault.consumed(),
        progress_since_last_window: c.progress_window_ok || c.progress_events > c.progress_mark,
    }
}
