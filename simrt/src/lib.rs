//! simrt — deterministic simulation runtime used to run unmodified renoir jobs under a seeded
//! scheduler with a virtual clock, a simulated TCP fabric and fault injection.

pub mod chan;
pub mod fs;
pub mod net;
pub mod rt;
pub mod stdshim;
pub mod sync;
pub mod tape;
pub mod thread;
pub mod time;

pub use rt::{Fk, Outcome, SimConfig, Verdict};
pub use tape::Tape;

/// Pin the whole process (and every thread created later) to one CPU: baton hand-offs between
/// threads on one core cost ~4 us instead of ~70 us.
pub fn pin_process_to_cpu(cpu: usize) {
    unsafe {
        let mut set: libc::cpu_set_t = std::mem::zeroed();
        libc::CPU_ZERO(&mut set);
        libc::CPU_SET(cpu, &mut set);
        libc::sched_setaffinity(0, std::mem::size_of::<libc::cpu_set_t>(), &set);
    }
}

pub fn yield_now() {
    rt::yield_now();
}
