//! Simulated `std::thread` (Builder / JoinHandle / spawn / sleep / yield_now).

use std::io;
use std::time::Duration;

pub use std::thread::*;

use crate::rt;

pub struct JoinHandle<T>(rt::JoinHandle<T>);

impl<T> JoinHandle<T> {
    pub fn join(self) -> std::thread::Result<T> {
        self.0.join()
    }
    pub fn is_finished(&self) -> bool {
        self.0.is_finished()
    }
}

impl<T> std::fmt::Debug for JoinHandle<T> {
    fn fmt(&self, f: &mut std::fmt::Formatter<'_>) -> std::fmt::Result {
        f.debug_struct("SimJoinHandle").finish_non_exhaustive()
    }
}

#[derive(Debug, Default)]
pub struct Builder {
    name: Option<String>,
}

impl Builder {
    pub fn new() -> Self {
        Builder { name: None }
    }
    pub fn name(mut self, name: String) -> Self {
        self.name = Some(name);
        self
    }
    pub fn stack_size(self, _size: usize) -> Self {
        self
    }
    pub fn spawn<F, T>(self, f: F) -> io::Result<JoinHandle<T>>
    where
        F: FnOnce() -> T + Send + 'static,
        T: Send + 'static,
    {
        Ok(JoinHandle(rt::spawn_on(
            self.name.unwrap_or_else(|| "unnamed".into()),
            None,
            f,
        )))
    }
}

pub fn spawn<F, T>(f: F) -> JoinHandle<T>
where
    F: FnOnce() -> T + Send + 'static,
    T: Send + 'static,
{
    Builder::new().spawn(f).unwrap()
}

pub fn sleep(d: Duration) {
    if rt::in_sim() {
        rt::sleep_local(d.as_nanos().min(u64::MAX as u128) as u64);
    } else {
        std::thread::sleep(d);
    }
}

pub fn yield_now() {
    if rt::in_sim() {
        rt::yield_now();
    } else {
        std::thread::yield_now();
    }
}
