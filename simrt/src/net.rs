//! Simulated TCP: listeners and byte streams inside the process, owned by the scheduler.
//! Byte-stream FIFO semantics are kept (this is a stub of the kernel); what varies is timing,
//! segmentation (partial writes, short reads), EINTR, buffer size, latency and start-up races.

use std::collections::{HashMap, VecDeque};
use std::io::{self, ErrorKind, Read, Write};
use std::sync::{Arc, Mutex};
use std::time::Duration;

pub use std::net::*;

use crate::rt::{self, Fk, ResId, Wake};

struct Pipe {
    chunks: VecDeque<(u64, Vec<u8>, usize)>, // (deliver_at, bytes, read offset)
    queued: usize,
    cap: usize,
    latency: u64,
    writer_closed: bool,
    reader_closed: bool,
    res_r: ResId,
    res_w: ResId,
}

impl Pipe {
    fn new(cap: usize, latency: u64) -> Pipe {
        Pipe {
            chunks: VecDeque::new(),
            queued: 0,
            cap,
            latency,
            writer_closed: false,
            reader_closed: false,
            res_r: rt::new_res(),
            res_w: rt::new_res(),
        }
    }
}

struct Conn {
    // pipes[0]: client -> server, pipes[1]: server -> client
    pipes: [Mutex<Pipe>; 2],
}

pub struct TcpStream {
    conn: Arc<Conn>,
    /// 0 = client side, 1 = server side
    side: usize,
    local: SocketAddr,
    peer: SocketAddr,
}

struct ListenerInner {
    pending: Mutex<VecDeque<TcpStream>>,
    res: ResId,
}

pub struct TcpListener {
    addr: SocketAddr,
    inner: Arc<ListenerInner>,
}

struct Registry {
    listeners: HashMap<SocketAddr, Arc<ListenerInner>>,
    next_port: u16,
    default_cap: usize,
}

static REGISTRY: Mutex<Option<Registry>> = Mutex::new(None);

fn with_registry<R>(f: impl FnOnce(&mut Registry) -> R) -> R {
    let mut g = REGISTRY.lock().unwrap();
    let r = g.get_or_insert_with(|| Registry {
        listeners: HashMap::new(),
        next_port: 40000,
        default_cap: 64 * 1024,
    });
    f(r)
}

/// Forget all listeners (called between runs).
pub fn reset(default_cap: usize) {
    *REGISTRY.lock().unwrap() = Some(Registry {
        listeners: HashMap::new(),
        next_port: 40000,
        default_cap,
    });
}

impl TcpListener {
    pub fn bind<A: ToSocketAddrs>(addr: A) -> io::Result<TcpListener> {
        rt::sched_point("tcp.bind", 0);
        let addr = addr
            .to_socket_addrs()?
            .next()
            .ok_or_else(|| io::Error::new(ErrorKind::InvalidInput, "no address"))?;
        let inner = Arc::new(ListenerInner {
            pending: Mutex::new(VecDeque::new()),
            res: rt::new_res(),
        });
        with_registry(|r| {
            if r.listeners.contains_key(&addr) {
                return Err(io::Error::new(ErrorKind::AddrInUse, "address in use"));
            }
            r.listeners.insert(addr, inner.clone());
            Ok(())
        })?;
        Ok(TcpListener { addr, inner })
    }

    pub fn local_addr(&self) -> io::Result<SocketAddr> {
        Ok(self.addr)
    }

    pub fn accept(&self) -> io::Result<(TcpStream, SocketAddr)> {
        rt::sched_point("tcp.accept", self.inner.res);
        loop {
            {
                let mut p = self.inner.pending.lock().unwrap();
                if !p.is_empty() {
                    let idx = if p.len() > 1 && rt::rate(Fk::AcceptOrder) > 0 {
                        rt::fired(Fk::AcceptOrder);
                        rt::sched_draw(p.len() as u32) as usize
                    } else {
                        0
                    };
                    let s = p.remove(idx).unwrap();
                    let peer = s.peer;
                    return Ok((s, peer));
                }
            }
            rt::block(&[self.inner.res], None, "tcp.accept");
        }
    }

    pub fn incoming(&self) -> Incoming<'_> {
        Incoming { listener: self }
    }
}

impl Drop for TcpListener {
    fn drop(&mut self) {
        with_registry(|r| {
            r.listeners.remove(&self.addr);
        });
        // connections never accepted are closed
        let pend: Vec<TcpStream> = self.inner.pending.lock().unwrap().drain(..).collect();
        drop(pend);
    }
}

pub struct Incoming<'a> {
    listener: &'a TcpListener,
}

impl Iterator for Incoming<'_> {
    type Item = io::Result<TcpStream>;
    fn next(&mut self) -> Option<io::Result<TcpStream>> {
        Some(self.listener.accept().map(|p| p.0))
    }
}

impl TcpStream {
    pub fn connect_timeout(addr: &SocketAddr, timeout: Duration) -> io::Result<TcpStream> {
        rt::sched_point("tcp.connect", 0);
        if rt::fault_chance(Fk::ConnTimeout) {
            rt::sleep_local(timeout.as_nanos() as u64);
            return Err(io::Error::new(ErrorKind::TimedOut, "connection timed out"));
        }
        let listener = with_registry(|r| r.listeners.get(addr).cloned());
        let Some(listener) = listener else {
            rt::count("connect_refused_unbound");
            return Err(io::Error::new(ErrorKind::ConnectionRefused, "connection refused"));
        };
        if rt::fault_chance(Fk::ConnRefused) {
            return Err(io::Error::new(ErrorKind::ConnectionRefused, "connection refused"));
        }
        let mut cap = with_registry(|r| r.default_cap);
        if rt::fault_chance(Fk::TcpSmallBuf) {
            cap = [64usize, 512, 4096][rt::fault_draw(3) as usize];
        }
        let mut latency = 0;
        if rt::fault_chance(Fk::TcpLatency) {
            latency = rt::fault_delay().min(50_000_000);
        }
        let port = with_registry(|r| {
            r.next_port = r.next_port.wrapping_add(1).max(40000);
            r.next_port
        });
        let host = rt::current_host();
        let local = SocketAddr::new(IpAddr::V4(Ipv4Addr::new(10, 0, 0, host as u8)), port);
        let conn = Arc::new(Conn {
            pipes: [
                Mutex::new(Pipe::new(cap, latency)),
                Mutex::new(Pipe::new(cap, latency)),
            ],
        });
        let server = TcpStream {
            conn: conn.clone(),
            side: 1,
            local: *addr,
            peer: local,
        };
        listener.pending.lock().unwrap().push_back(server);
        rt::notify(listener.res);
        Ok(TcpStream {
            conn,
            side: 0,
            local,
            peer: *addr,
        })
    }

    pub fn connect<A: ToSocketAddrs>(addr: A) -> io::Result<TcpStream> {
        let mut last = io::Error::new(ErrorKind::InvalidInput, "no address");
        for a in addr.to_socket_addrs()? {
            match Self::connect_timeout(&a, Duration::from_secs(10)) {
                Ok(s) => return Ok(s),
                Err(e) => last = e,
            }
        }
        Err(last)
    }

    pub fn peer_addr(&self) -> io::Result<SocketAddr> {
        Ok(self.peer)
    }

    pub fn local_addr(&self) -> io::Result<SocketAddr> {
        Ok(self.local)
    }

    pub fn set_nodelay(&self, _v: bool) -> io::Result<()> {
        Ok(())
    }

    fn out_pipe(&self) -> &Mutex<Pipe> {
        &self.conn.pipes[self.side]
    }

    fn in_pipe(&self) -> &Mutex<Pipe> {
        &self.conn.pipes[1 - self.side]
    }

    fn close(&self, read: bool, write: bool) {
        if write {
            let res = {
                let mut p = self.out_pipe().lock().unwrap();
                p.writer_closed = true;
                p.res_r
            };
            rt::notify(res);
        }
        if read {
            let res = {
                let mut p = self.in_pipe().lock().unwrap();
                p.reader_closed = true;
                p.res_w
            };
            rt::notify(res);
        }
    }

    pub fn shutdown(&self, how: Shutdown) -> io::Result<()> {
        rt::sched_point("tcp.shutdown", 0);
        match how {
            Shutdown::Both => self.close(true, true),
            Shutdown::Read => self.close(true, false),
            Shutdown::Write => self.close(false, true),
        }
        Ok(())
    }

    fn do_write(&self, buf: &[u8]) -> io::Result<usize> {
        if buf.is_empty() {
            return Ok(0);
        }
        let res_w = self.out_pipe().lock().unwrap().res_w;
        rt::sched_point("tcp.write", res_w);
        if rt::fault_chance(Fk::TcpEintr) {
            return Err(io::Error::new(ErrorKind::Interrupted, "EINTR"));
        }
        loop {
            {
                let p = self.out_pipe().lock().unwrap();
                if p.reader_closed || p.writer_closed {
                    return Err(io::Error::new(ErrorKind::BrokenPipe, "broken pipe"));
                }
                let free = p.cap.saturating_sub(p.queued);
                // like a kernel's send low-water mark: a blocked writer proceeds once a quarter of
                // the buffer (or all it wants to write) is free, not for every freed byte
                if free >= buf.len().min(p.cap / 4).max(1) {
                    let mut n = buf.len().min(free);
                    drop(p);
                    if n > 1 && rt::fault_chance(Fk::TcpSegment) {
                        n = 1 + rt::fault_draw(n as u32) as usize;
                    }
                    let now = rt::now_ns();
                    let mut p = self.out_pipe().lock().unwrap();
                    let at = now + p.latency;
                    p.chunks.push_back((at, buf[..n].to_vec(), 0));
                    p.queued += n;
                    let r = p.res_r;
                    drop(p);
                    rt::notify(r);
                    rt::progress();
                    return Ok(n);
                }
            }
            rt::count("tcp_write_blocked_on_full_buffer");
            rt::block(&[res_w], None, "tcp.write");
        }
    }

    fn do_read(&self, buf: &mut [u8]) -> io::Result<usize> {
        if buf.is_empty() {
            return Ok(0);
        }
        let res_r = self.in_pipe().lock().unwrap().res_r;
        rt::sched_point("tcp.read", res_r);
        if rt::fault_chance(Fk::TcpEintr) {
            return Err(io::Error::new(ErrorKind::Interrupted, "EINTR"));
        }
        loop {
            let now = rt::now_ns();
            let mut wait_until = None;
            {
                let p = self.in_pipe().lock().unwrap();
                if p.reader_closed {
                    return Ok(0);
                }
                if let Some((at, _, _)) = p.chunks.front() {
                    if *at <= now {
                        let avail = {
                            let (_, data, off) = p.chunks.front().unwrap();
                            data.len() - *off
                        };
                        let mut n = avail.min(buf.len());
                        drop(p);
                        if n > 1 && rt::fault_chance(Fk::TcpSegment) {
                            n = 1 + rt::fault_draw(n as u32) as usize;
                        }
                        let mut p = self.in_pipe().lock().unwrap();
                        let done = {
                            let (_, data, off) = p.chunks.front_mut().unwrap();
                            buf[..n].copy_from_slice(&data[*off..*off + n]);
                            *off += n;
                            *off == data.len()
                        };
                        if done {
                            p.chunks.pop_front();
                        }
                        p.queued -= n;
                        let w = p.res_w;
                        drop(p);
                        rt::notify(w);
                        return Ok(n);
                    } else {
                        wait_until = Some(*at);
                    }
                } else if p.writer_closed {
                    return Ok(0);
                }
            }
            match wait_until {
                Some(at) => {
                    rt::block(&[res_r], Some(at), "tcp.read");
                }
                None => {
                    let w: Wake = rt::block(&[res_r], None, "tcp.read");
                    let _ = w;
                }
            }
        }
    }
}

impl Drop for TcpStream {
    fn drop(&mut self) {
        self.close(true, true);
    }
}

impl std::fmt::Debug for TcpStream {
    fn fmt(&self, f: &mut std::fmt::Formatter<'_>) -> std::fmt::Result {
        write!(f, "SimTcpStream({} -> {})", self.local, self.peer)
    }
}

impl std::fmt::Debug for TcpListener {
    fn fmt(&self, f: &mut std::fmt::Formatter<'_>) -> std::fmt::Result {
        write!(f, "SimTcpListener({})", self.addr)
    }
}

impl Read for TcpStream {
    fn read(&mut self, buf: &mut [u8]) -> io::Result<usize> {
        self.do_read(buf)
    }
}

impl Read for &TcpStream {
    fn read(&mut self, buf: &mut [u8]) -> io::Result<usize> {
        self.do_read(buf)
    }
}

impl Write for TcpStream {
    fn write(&mut self, buf: &[u8]) -> io::Result<usize> {
        self.do_write(buf)
    }
    fn flush(&mut self) -> io::Result<()> {
        Ok(())
    }
}

impl Write for &TcpStream {
    fn write(&mut self, buf: &[u8]) -> io::Result<usize> {
        self.do_write(buf)
    }
    fn flush(&mut self) -> io::Result<()> {
        Ok(())
    }
}
