//! Choice tapes: every nondeterministic decision of a run is a bounded draw from one of three
//! tapes. In generate mode a tape is fed by a PRNG and records what it handed out; in replay mode
//! it hands out the recorded values (reduced modulo the bound, so shrunk tapes stay legal) and
//! returns 0 — by convention the simplest choice — once it runs out.

#[derive(Clone, Debug)]
pub struct Rng(pub u64);

impl Rng {
    pub fn new(seed: u64) -> Self {
        Rng(seed ^ 0x9E37_79B9_7F4A_7C15)
    }
    #[inline]
    pub fn next_u64(&mut self) -> u64 {
        // splitmix64
        self.0 = self.0.wrapping_add(0x9E37_79B9_7F4A_7C15);
        let mut z = self.0;
        z = (z ^ (z >> 30)).wrapping_mul(0xBF58_476D_1CE4_E5B9);
        z = (z ^ (z >> 27)).wrapping_mul(0x94D0_49BB_1331_11EB);
        z ^ (z >> 31)
    }
}

pub fn mix(a: u64, b: u64) -> u64 {
    let mut r = Rng::new(a ^ b.rotate_left(32).wrapping_mul(0xD6E8_FEB8_6659_FD93));
    r.next_u64()
}

#[derive(Clone, Debug)]
pub struct Tape {
    rec: Vec<u32>,
    pos: usize,
    rng: Option<Rng>,
    /// number of draws that were answered after the recorded tape ended (replay mode)
    pub overrun: u64,
}

impl Tape {
    pub fn generate(seed: u64) -> Self {
        Tape {
            rec: Vec::new(),
            pos: 0,
            rng: Some(Rng::new(seed)),
            overrun: 0,
        }
    }

    pub fn replay(rec: Vec<u32>) -> Self {
        Tape {
            rec,
            pos: 0,
            rng: None,
            overrun: 0,
        }
    }

    /// A value in `[0, n)`. `n <= 1` consumes nothing.
    #[inline]
    pub fn draw(&mut self, n: u32) -> u32 {
        if n <= 1 {
            return 0;
        }
        match &mut self.rng {
            Some(rng) => {
                let v = (rng.next_u64() % n as u64) as u32;
                self.rec.push(v);
                self.pos += 1;
                v
            }
            None => {
                if self.pos < self.rec.len() {
                    let v = self.rec[self.pos] % n;
                    self.pos += 1;
                    v
                } else {
                    self.overrun += 1;
                    0
                }
            }
        }
    }

    /// true with probability `permille`/1000 (never consumes when permille == 0)
    #[inline]
    pub fn chance(&mut self, permille: u32) -> bool {
        if permille == 0 {
            return false;
        }
        // value 0 must mean "no": the event fires for the *high* values
        self.draw(1000) >= 1000 - permille.min(1000)
    }

    /// draw in `[lo, hi]`, 0 on the tape maps to `lo`
    pub fn range(&mut self, lo: u64, hi: u64) -> u64 {
        debug_assert!(lo <= hi);
        let span = hi - lo + 1;
        if span <= u32::MAX as u64 {
            lo + self.draw(span as u32) as u64
        } else {
            let a = self.draw(u32::MAX) as u64;
            let b = self.draw(u32::MAX) as u64;
            lo + ((a << 31) ^ b) % span
        }
    }

    pub fn pick<'a, T>(&mut self, xs: &'a [T]) -> &'a T {
        &xs[self.draw(xs.len() as u32) as usize]
    }

    /// The draws handed out so far (generate mode) or consumed so far (replay mode).
    pub fn consumed(&self) -> Vec<u32> {
        self.rec[..self.pos.min(self.rec.len())].to_vec()
    }

    pub fn recorded(&self) -> &[u32] {
        &self.rec
    }

    pub fn position(&self) -> usize {
        self.pos
    }
}
