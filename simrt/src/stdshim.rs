//! `use simrt::stdshim as std;` — the real `std` with the blocking / timing / I/O items replaced.

pub use ::std::*;

pub mod thread {
    pub use crate::thread::*;
}
pub mod sync {
    pub use crate::sync::*;
}
pub mod time {
    pub use crate::time::*;
}
pub mod net {
    pub use crate::net::*;
}
pub mod fs {
    pub use crate::fs::*;
}
