#!/usr/bin/env python3
"""Print the prompt given to an independent sub-agent that must produce a property-breaking change."""
import json, sys
pid = sys.argv[1]
wt = sys.argv[2]
props = {json.loads(l)["id"]: json.loads(l) for l in open("/verif/properties.jsonl")}
p = props[pid]
print(f"""You are working on the Rust project renoir/noir (deib-polimi/noir, a distributed dataflow stream-processing engine). You have your own scratch git worktree of the repository at {wt} . Work ONLY inside {wt} (never touch /repo or /verif, do not read anything under /verif). The sandbox is offline: always pass --offline to cargo (e.g. `cargo test --offline ...`). To avoid rebuilding all dependencies, first run: `cp -r /repo/target {wt}/target` (2.8 GB, takes a few seconds).

Here is a semantic property of the system that users rely on:

  Title: {p['title']}
  Statement: {p['statement']}
  It must hold: {p['quantifier']['text']}

YOUR TASK: produce ONE realistic change (a bug a maintainer could plausibly introduce: an off-by-one, a wrong comparison, a forgotten reset, a reordered pair of statements, a dropped flush, a wrong index, a missed case...) to the library source under {wt}/src that BREAKS this property, while:
  1. the crate still compiles (`cargo build --offline` and `cargo test --offline --no-run`), with no new warnings-as-errors;
  2. the existing test-suite still passes with the change: every test listed under "stable_pass" in /root/.vp/BASELINE.json must still pass (names are `renoir::<test binary>::<test path>`; the unit tests run with `cargo test --offline --lib`, integration test binaries with `cargo test --offline --test <name>`; run integration test binaries ONE AT A TIME because they bind the same TCP ports and collide when run concurrently; tests not in stable_pass are flaky here because of those port collisions and may be ignored);
  3. the breakage is SUBTLE: it must need something specific to manifest — a particular thread interleaving or timing, a particular element/batch/marker arrival order, a multi-step sequence, an unusual input (sizes, replica counts, empty side, many batches, more than channel capacity ...), a particular batch mode or host layout, or two cooperating code sites that each look fine alone. It must NOT be something that any ordinary small job exposes at once (that is why the existing tests must still pass). Do not touch tests, Cargo.toml, or anything guarded by `cfg(renoir_verif)` (those are instrumentation hooks; leave them alone and do not rely on them).
  4. you provide a DEMONSTRATION: a new integration test file `{wt}/tests/seeded_demo.rs` (or, if timing control is needed, a small program under `{wt}/examples/`) that uses only the public API of the crate, that FAILS (assertion failure, wrong result, hang detected by a timeout you implement, or panic) with your change applied and PASSES on the unchanged code. If the failure is probabilistic (depends on the schedule), make the demonstration loop/retry or use sleeps inside user closures so that it fails reliably (say >= 9 times out of 10) with the change and never without it. Use `RuntimeConfig::local(n)` (in-process threads) unless you need several hosts; look at {wt}/tests/utils.rs to see how the existing tests build multi-host configurations.

Verify all of this yourself: run the demonstration on the changed code (must fail) and on the unchanged code (save your change with `git diff -- src > patch.diff`, revert it with `git apply -R patch.diff`, run, then re-apply with `git apply patch.diff`; do NOT use `git stash`: the stash is shared by all worktrees of this repository and other agents work in sibling worktrees), and run the stable tests with the change.

When done, leave in {wt}: the source change applied in the working tree (uncommitted), the demonstration file, and write {wt}/SEEDED.md describing: which file/lines you changed and why it breaks the property, exactly what is needed for it to manifest, the commands you ran and their outcome (demo with/without change, test-suite with change). Also save the source-only change as {wt}/patch.diff (`git diff -- src > patch.diff`). Finally reply with a short summary (the changed site, what it needs to manifest, and how the demo shows it). Leave {wt}/target in place; it will be cleaned up for you.""")
