#!/usr/bin/env python3
"""Run the repository's stable baseline (guard off) from /repo: lib tests, then every integration
test binary one at a time (they share TCP ports), and report which stable_pass tests did not pass."""
import json, os, re, subprocess, sys
repo = sys.argv[1] if len(sys.argv) > 1 else "/repo"
base = json.load(open("/root/.vp/BASELINE.json"))
stable = set(base["stable_pass"])
env = dict(os.environ, CARGO_NET_OFFLINE="true")
def sh(cmd, t=3600):
    p = subprocess.run(cmd, shell=True, cwd=repo, env=env, capture_output=True, text=True, timeout=t)
    return p.stdout + p.stderr
passed = set()
rx = re.compile(r"^test (\S+)(?: - should panic)? \.\.\. ok", re.M)
out = sh("cargo test --offline --lib 2>&1")
passed |= {"renoir::" + m for m in rx.findall(out)}
bins = sorted({n.split("::")[1] for n in stable})
for b in bins:
    if not (os.path.exists(f"{repo}/tests/{b}.rs") or os.path.isdir(f"{repo}/tests/{b}")):
        continue
    out = sh(f"timeout 1500 cargo test --offline --test {b} 2>&1")
    passed |= {f"renoir::{b}::" + m for m in rx.findall(out)}
missing = sorted(stable - passed)
still = []
for name in missing:
    parts = name.split("::")
    b = parts[1]
    if os.path.exists(f"{repo}/tests/{b}.rs") or os.path.isdir(f"{repo}/tests/{b}"):
        cmd = f"timeout 600 cargo test --offline --test {b} {'::'.join(parts[2:])} -- --exact 2>&1"
    else:
        cmd = f"timeout 600 cargo test --offline --lib {'::'.join(parts[1:])} -- --exact 2>&1"
    ok = any(rx.search(sh(cmd, 700)) for _ in range(3))
    if not ok:
        still.append(name)
print(f"stable_pass={len(stable)} passed={len(stable)-len(still)} failing={still}")
sys.exit(1 if still else 0)
