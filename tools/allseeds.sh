#!/bin/sh
# run the quick check of the given properties under several VERIF_SEED values; print only non-OK results
cd "$(dirname "$0")/.."
props="$1"; shift
for seed in "$@"; do
  for p in $props; do
    out=$(VERIF_SEED=$seed ./target/release/noirsim check $p --tier quick 2>&1); rc=$?
    if [ $rc -ne 0 ]; then echo "=== $p seed=$seed rc=$rc"; echo "$out" | grep -v "^      " | cut -c1-500 | tail -12; else echo "$p seed=$seed ok $(echo "$out" | grep -c KNOWN-FINDING) known"; fi
  done
done
