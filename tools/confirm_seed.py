#!/usr/bin/env python3
"""Confirm a seeded change produced by an independent sub-agent, inside its scratch worktree:
 - with the change: crate builds, the demonstration FAILS, every stable_pass baseline test passes
 - without the change: the demonstration PASSES
Then store patch.diff, the demonstration and meta.json under /verif/seeded/<id>/.
usage: confirm_seed.py <worktree> <seed-id> <property> [demo-kind: test|example] """
import json, os, re, subprocess, sys, shutil, time

wt, sid, prop = sys.argv[1], sys.argv[2], sys.argv[3]
env = dict(os.environ, CARGO_NET_OFFLINE="true")
base = json.load(open("/root/.vp/BASELINE.json"))
stable = set(base["stable_pass"])

def sh(cmd, timeout=3600):
    p = subprocess.run(cmd, shell=True, cwd=wt, env=env, capture_output=True, text=True, timeout=timeout)
    return p.returncode, p.stdout + p.stderr

def run_demo():
    if os.path.exists(os.path.join(wt, "tests/seeded_demo.rs")):
        return sh("timeout 900 cargo test --offline --test seeded_demo -- --test-threads 1 2>&1 | tail -40", 1000)
    ex = [f for f in os.listdir(os.path.join(wt, "examples")) if f.startswith("seeded")]
    return sh(f"timeout 900 cargo run --offline --example {ex[0][:-3]} 2>&1 | tail -40", 1000)

def demo_failed(rc, out):
    return ("test result: FAILED" in out) or ("panicked" in out and "test result: ok" not in out) or ("error: test failed" in out)

log = {}
# the change must be present in the working tree
rc, diff = sh("git diff -- src")
assert diff.strip(), "no source change in worktree"
open(os.path.join(wt, "patch.diff"), "w").write(diff)

rc, out = run_demo()
log["demo_with_change"] = out[-1500:]
with_fail = demo_failed(rc, out)

# stable baseline with the change
passed = set()
rc, out = sh("cargo test --offline --lib 2>&1", 3000)
for m in re.finditer(r"^test (\S+)(?: - should panic)? \.\.\. ok", out, re.M):
    passed.add("renoir::" + m.group(1))
bins = sorted({n.split("::")[1] for n in stable} )
tests_dir = os.path.join(wt, "tests")
for b in bins:
    if not (os.path.exists(os.path.join(tests_dir, b + ".rs")) or os.path.isdir(os.path.join(tests_dir, b))):
        continue
    rc, out = sh(f"timeout 1200 cargo test --offline --test {b} 2>&1", 1300)
    for m in re.finditer(r"^test (\S+)(?: - should panic)? \.\.\. ok", out, re.M):
        passed.add(f"renoir::{b}::" + m.group(1))
missing = sorted(stable - passed)
# retry the missing ones individually (port clashes with other processes make some flaky)
still = []
for name in missing:
    parts = name.split("::")
    b, path = parts[1], "::".join(parts[2:])
    if os.path.exists(os.path.join(tests_dir, b + ".rs")) or os.path.isdir(os.path.join(tests_dir, b)):
        cmd = f"timeout 600 cargo test --offline --test {b} {path} -- --exact 2>&1"
    else:
        path = "::".join(parts[1:])
        cmd = f"timeout 600 cargo test --offline --lib {path} -- --exact 2>&1"
    ok = False
    for _ in range(3):
        rc, out = sh(cmd, 700)
        if re.search(r"^test \S+(?: - should panic)? \.\.\. ok", out, re.M):
            ok = True
            break
    if not ok:
        still.append(name)
log["stable_missing_with_change"] = still

# without the change
# NB: `git stash` is shared by all worktrees of a repository: never use it here
sh("git apply -R patch.diff")
try:
    rc, out = run_demo()
    log["demo_without_change"] = out[-1500:]
    without_pass = not demo_failed(rc, out) and ("test result: ok" in out or rc == 0)
finally:
    sh("git apply patch.diff")

ok = with_fail and without_pass and not still
dst = f"/verif/seeded/{sid}"
os.makedirs(dst, exist_ok=True)
shutil.copy(os.path.join(wt, "patch.diff"), dst)
for f in ["tests/seeded_demo.rs", "SEEDED.md"]:
    p = os.path.join(wt, f)
    if os.path.exists(p):
        shutil.copy(p, dst)
if os.path.isdir(os.path.join(wt, "examples")):
    for f in os.listdir(os.path.join(wt, "examples")):
        if f.startswith("seeded"):
            shutil.copy(os.path.join(wt, "examples", f), dst)
meta = {
    "id": sid, "property": prop, "confirmed": ok,
    "demo_fails_with_change": with_fail, "demo_passes_without_change": without_pass,
    "stable_tests_failing_with_change": still,
    "what_i_ran": ["cargo test --offline --test seeded_demo (with change, then after `git apply -R patch.diff`)",
                   "cargo test --offline --lib and every integration test binary one at a time; the 86 stable_pass names of /root/.vp/BASELINE.json checked by name"],
    "needs_to_manifest": "see SEEDED.md (filled in from the author's description)",
    "confirmed_at": time.strftime("%Y-%m-%dT%H:%M:%SZ", time.gmtime()),
    "log": log,
}
json.dump(meta, open(os.path.join(dst, "meta.json"), "w"), indent=1)
print("CONFIRMED" if ok else "NOT CONFIRMED", sid, "with_fail=", with_fail, "without_pass=", without_pass, "stable_missing=", still)
