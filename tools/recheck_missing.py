#!/usr/bin/env python3
"""Re-run only the stable tests that a confirm run listed as missing and update meta.json."""
import json, os, re, subprocess, sys
wt, sid = sys.argv[1], sys.argv[2]
mp=f"/verif/seeded/{sid}/meta.json"
meta=json.load(open(mp))
still=[]
for name in meta["stable_tests_failing_with_change"]:
    parts=name.split("::")
    b=parts[1]
    tests_dir=os.path.join(wt,"tests")
    if os.path.exists(os.path.join(tests_dir,b+".rs")) or os.path.isdir(os.path.join(tests_dir,b)):
        cmd=f"timeout 600 cargo test --offline --test {b} {'::'.join(parts[2:])} -- --exact 2>&1"
    else:
        cmd=f"timeout 600 cargo test --offline --lib {'::'.join(parts[1:])} -- --exact 2>&1"
    out=subprocess.run(cmd,shell=True,cwd=wt,capture_output=True,text=True).stdout
    if not re.search(r"^test \S+(?: - should panic)? \.\.\. ok", out, re.M):
        still.append(name)
meta["stable_tests_failing_with_change"]=still
meta["confirmed"]=meta["demo_fails_with_change"] and meta["demo_passes_without_change"] and not still
json.dump(meta,open(mp,"w"),indent=1)
print(sid,"confirmed=",meta["confirmed"],still)
