#!/bin/sh
# Build the framework offline from files on disk only.
set -e
cd "$(dirname "$0")/.."
export CARGO_NET_OFFLINE=true
python3 tools/gen_shadow.py
cargo build --release --offline -p noirsim 2>&1 | tail -3
