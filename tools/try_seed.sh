#!/bin/sh
# usage: try_seed.sh <patch> "<props>"  -- applies the patch to /repo, runs quick checks, reverts
patch=$1; props=$2
cd /repo && git apply "$patch" || exit 2
cd /verif
export VERIF_EVIDENCE_DIR=/tmp/ev-seeded; mkdir -p $VERIF_EVIDENCE_DIR
for p in $props; do
  echo "=== $p"
  ./tools/check.sh $p quick 2>&1 | grep -E "^--- violation|^VIOLATION|^runs=|HARNESS|error" | cut -c1-300
done
git -C /repo checkout -- .
git -C /repo status --short | head
