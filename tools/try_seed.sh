#!/bin/sh
# usage: try_seed.sh <patch> "<props>"
# Applies the patch to a scratch worktree of /repo (never to /repo itself, whose working tree other
# checks may be reading), runs the quick checks against it, and reverts. Evidence of these runs goes
# to /tmp/ev-seeded, not to /verif/evidence.
patch=$1; props=$2
wt=/tmp/ts-repo
if [ ! -d $wt ]; then git -C /repo worktree add -q --detach $wt HEAD || exit 2; fi
git -C $wt checkout -q --detach "$(git -C /repo rev-parse HEAD)" || exit 2
git -C $wt checkout -- . 
git -C $wt apply "$patch" || exit 2
cd /verif
export VERIF_REPO=$wt
# a build directory of its own: the clean build in target/ stays valid
export VERIF_TARGET=target-seeded
export VERIF_EVIDENCE_DIR=/tmp/ev-seeded; mkdir -p $VERIF_EVIDENCE_DIR
for p in $props; do
  echo "=== $p"
  ./tools/check.sh $p quick 2>&1 | grep -E "^--- violation|^VIOLATION|^runs=|HARNESS|harness|error" | cut -c1-300
done
git -C $wt checkout -- .
python3 tools/gen_shadow.py
