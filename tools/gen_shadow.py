#!/usr/bin/env python3
"""Generate /verif/shadow/Cargo.toml from /repo/Cargo.toml.

The shadow package is the *same source tree* (`[lib] path = /repo/src/lib.rs`) built with
 - `--cfg renoir_verif` (emitted by shadow/build.rs), which enables the guarded hooks, and
 - the crates flume / coarsetime / nanorand replaced by the simulator-backed shims.
/repo's own Cargo.toml and Cargo.lock are never touched.
"""
import os, re, sys, tomllib

REPO = os.environ.get("VERIF_REPO", "/repo")
HERE = os.path.dirname(os.path.dirname(os.path.abspath(__file__)))
src = tomllib.load(open(os.path.join(REPO, "Cargo.toml"), "rb"))

SHIMS = {"flume": "../shims/flume", "coarsetime": "../shims/coarsetime", "nanorand": "../shims/nanorand"}

def fmt_val(v):
    if isinstance(v, bool):
        return "true" if v else "false"
    if isinstance(v, str):
        return '"' + v.replace("\\", "\\\\").replace('"', '\\"') + '"'
    if isinstance(v, (int, float)):
        return str(v)
    if isinstance(v, list):
        return "[" + ", ".join(fmt_val(x) for x in v) + "]"
    if isinstance(v, dict):
        return "{ " + ", ".join(f"{k} = {fmt_val(x)}" for k, x in v.items()) + " }"
    raise TypeError(v)

out = []
pkg = src["package"]
out.append("[package]")
out.append(f'name = {fmt_val(pkg["name"])}')
out.append(f'version = {fmt_val(pkg["version"])}')
out.append(f'edition = {fmt_val(pkg.get("edition", "2021"))}')
out.append('build = "build.rs"')
out.append("")
out.append("[lib]")
out.append(f'path = "{REPO}/src/lib.rs"')
out.append("")
out.append("[features]")
for k, v in src.get("features", {}).items():
    out.append(f"{k} = {fmt_val(v)}")
out.append("")
out.append("[dependencies]")
for k, v in src.get("dependencies", {}).items():
    if k in SHIMS:
        out.append(f'{k} = {{ path = "{SHIMS[k]}" }}')
    else:
        out.append(f"{k} = {fmt_val(v)}")
out.append('simrt = { path = "../simrt" }')
out.append("")
out.append("[lints.rust]")
out.append("unexpected_cfgs = { level = \"allow\" }")
out.append("")
text = "\n".join(out)
os.makedirs(os.path.join(HERE, "shadow"), exist_ok=True)
path = os.path.join(HERE, "shadow", "Cargo.toml")
old = open(path).read() if os.path.exists(path) else None
if old != text:
    open(path, "w").write(text)
b = os.path.join(HERE, "shadow", "build.rs")
btext = 'fn main() {\n    println!("cargo:rustc-cfg=renoir_verif");\n    println!("cargo:rerun-if-changed=build.rs");\n}\n'
if not os.path.exists(b) or open(b).read() != btext:
    open(b, "w").write(btext)
# lock file: start from the repository's own lock so that every registry crate resolves offline
lock = os.path.join(HERE, "Cargo.lock")
if not os.path.exists(lock):
    import shutil
    shutil.copy(os.path.join(REPO, "Cargo.lock"), lock)
