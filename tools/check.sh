#!/bin/sh
# usage: tools/check.sh <Cxx> <quick|thorough>
# Rebuilds the simulator-backed build of /repo's current working tree (hooks on), then runs the
# property's check. Exit 0 = held, 1 = VIOLATION, 2 = harness error (build failure, determinism, watchdog).
cd "$(dirname "$0")/.." || exit 2
export CARGO_NET_OFFLINE=true
T=${VERIF_TARGET:-target}
mkdir -p $T
python3 tools/gen_shadow.py || exit 2
if ! cargo build --release --offline -p noirsim --target-dir $T > $T/build.log 2>&1; then
    tail -40 $T/build.log
    echo "HARNESS-ERROR build of /repo with hooks failed"
    exit 2
fi
exec ./$T/release/noirsim check "$1" --tier "${2:-quick}"
