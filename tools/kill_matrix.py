#!/usr/bin/env python3
"""Run every check (quick tier) against every seeded change, in a scratch worktree of /repo.
Meant for `vp run`: works from the snapshot it is started in, never touches /repo's working tree.
usage: kill_matrix.py [seed-id ...]   (default: all of seeded/*)"""
import json, os, subprocess, sys, time
root = os.path.dirname(os.path.dirname(os.path.abspath(__file__)))
wt = "/tmp/km-repo"
subprocess.run(f"git -C /repo worktree remove --force {wt}", shell=True, capture_output=True)
subprocess.run(f"git -C /repo worktree add -q --detach {wt} HEAD", shell=True, check=True)
os.makedirs("/tmp/ev-seeded", exist_ok=True)
env = dict(os.environ, VERIF_REPO=wt, CARGO_NET_OFFLINE="true", VERIF_EVIDENCE_DIR="/tmp/ev-seeded")
props = [json.loads(l)["id"] for l in open(os.path.join(root, "properties.jsonl"))]
own = "--own" in sys.argv
args = [a for a in sys.argv[1:] if a != "--own"]
seeds = args or sorted(os.listdir(os.path.join(root, "seeded")))
outfile = "kill_matrix_own.json" if own else "kill_matrix.json"
results = {}
try:
    for sd in seeds:
        patch = os.path.join(root, "seeded", sd, "patch.diff")
        if not os.path.exists(patch):
            continue
        r = subprocess.run(f"git -C {wt} apply {patch}", shell=True, capture_output=True, text=True)
        if r.returncode != 0:
            results[sd] = {"error": "patch does not apply: " + r.stderr[:200]}
            print(sd, "PATCH DOES NOT APPLY", flush=True)
            continue
        row = {}
        for p in ([sd[:3]] if own else props):
            t0 = time.time()
            r = subprocess.run(["./tools/check.sh", p, "quick"], cwd=root, env=env, capture_output=True, text=True)
            classes = sorted({l.split()[3] for l in r.stdout.splitlines() if l.startswith("--- violation class")})
            occ = {l.split()[3].split("/")[1] if "/" in l.split()[3] else l.split()[3]: int(l.split("run ")[1].split(", ")[1].split()[0]) for l in r.stdout.splitlines() if l.startswith("--- violation class") and "occurrences" in l}
            row[p] = {"rc": r.returncode, "classes": classes, "occurrences": occ, "s": round(time.time() - t0, 1)}
            print(sd, p, r.returncode, classes[:3], flush=True)
        results[sd] = row
        subprocess.run(f"git -C {wt} checkout -- .", shell=True)
        json.dump(results, open(os.path.join(root, outfile), "w"), indent=1)
finally:
    subprocess.run(f"git -C /repo worktree remove --force {wt}", shell=True, capture_output=True)
print("== caught by")
for sd, row in results.items():
    if "error" in row:
        print(sd, row["error"]); continue
    print(sd, [p for p, v in row.items() if v["rc"] == 1], "harness-errors:", [p for p, v in row.items() if v["rc"] == 2])
