//! Stand-in for `nanorand`: `tls_rng().generate::<usize>()` draws from the schedule tape, so the
//! target replica of every shuffled element is a recorded, replayable choice.

pub struct TlsRng;

pub fn tls_rng() -> TlsRng {
    TlsRng
}

pub trait RandomGen {
    fn from_u64(v: u64) -> Self;
}
macro_rules! impl_gen {
    ($($t:ty),*) => {$(impl RandomGen for $t { fn from_u64(v: u64) -> Self { v as $t } })*};
}
impl_gen!(u8, u16, u32, u64, usize, i8, i16, i32, i64, isize);

pub trait Rng {
    fn generate<T: RandomGen>(&mut self) -> T;
    fn generate_range_u64(&mut self, n: u64) -> u64 {
        self.generate::<u64>() % n.max(1)
    }
}

impl Rng for TlsRng {
    fn generate<T: RandomGen>(&mut self) -> T {
        simrt::rt::count("shuffle_target_drawn");
        // 840 = lcm(1..8): the value modulo the number of replicas is uniform for up to 8 replicas
        T::from_u64(simrt::rt::sched_draw(840) as u64)
    }
}
