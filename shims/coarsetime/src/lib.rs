//! Stand-in for `coarsetime` reading the simulated host clock.

use std::ops::{Add, Sub};

#[derive(Clone, Copy, Debug, PartialEq, Eq, PartialOrd, Ord, Hash, Default)]
pub struct Duration(u64);

#[derive(Clone, Copy, Debug, PartialEq, Eq, PartialOrd, Ord, Hash)]
pub struct Instant(u64);

impl Duration {
    pub fn from_nanos(n: u64) -> Self {
        Duration(n)
    }
    pub fn from_millis(n: u64) -> Self {
        Duration(n * 1_000_000)
    }
    pub fn from_secs(n: u64) -> Self {
        Duration(n * 1_000_000_000)
    }
    pub fn as_nanos(&self) -> u64 {
        self.0
    }
    pub fn as_millis(&self) -> u64 {
        self.0 / 1_000_000
    }
    pub fn as_secs(&self) -> u64 {
        self.0 / 1_000_000_000
    }
    pub fn as_f64(&self) -> f64 {
        self.0 as f64 / 1e9
    }
}

impl From<std::time::Duration> for Duration {
    fn from(d: std::time::Duration) -> Self {
        Duration(d.as_nanos().min(u64::MAX as u128) as u64)
    }
}
impl From<Duration> for std::time::Duration {
    fn from(d: Duration) -> Self {
        std::time::Duration::from_nanos(d.0)
    }
}

impl Instant {
    pub fn now() -> Instant {
        Instant(simrt::time::Instant::now().as_nanos())
    }
    pub fn recent() -> Instant {
        Self::now()
    }
    pub fn elapsed(&self) -> Duration {
        Instant::now() - *self
    }
    pub fn duration_since(&self, earlier: Instant) -> Duration {
        *self - earlier
    }
}

impl Sub<Instant> for Instant {
    type Output = Duration;
    fn sub(self, o: Instant) -> Duration {
        Duration(self.0.saturating_sub(o.0))
    }
}
impl Add<Duration> for Instant {
    type Output = Instant;
    fn add(self, d: Duration) -> Instant {
        Instant(self.0 + d.0)
    }
}
impl Sub<Duration> for Instant {
    type Output = Instant;
    fn sub(self, d: Duration) -> Instant {
        Instant(self.0 - d.0)
    }
}
