//! Stand-in for the `flume` crate (API subset used by renoir) on top of the simulated channel.

use std::fmt;
use std::time::Duration;

use simrt::chan;
use simrt::rt::{self, Fk, Wake};

pub struct Sender<T>(chan::Sender<T>);
pub struct Receiver<T>(chan::Receiver<T>);

#[derive(Copy, Clone, PartialEq, Eq)]
pub struct SendError<T>(pub T);

impl<T> SendError<T> {
    pub fn into_inner(self) -> T {
        self.0
    }
}

impl<T> fmt::Debug for SendError<T> {
    fn fmt(&self, f: &mut fmt::Formatter) -> fmt::Result {
        "SendError(..)".fmt(f)
    }
}
impl<T> fmt::Display for SendError<T> {
    fn fmt(&self, f: &mut fmt::Formatter) -> fmt::Result {
        "sending on a closed channel".fmt(f)
    }
}
impl<T> std::error::Error for SendError<T> {}

#[derive(Copy, Clone, PartialEq, Eq)]
pub enum TrySendError<T> {
    Full(T),
    Disconnected(T),
}
impl<T> fmt::Debug for TrySendError<T> {
    fn fmt(&self, f: &mut fmt::Formatter) -> fmt::Result {
        match self {
            TrySendError::Full(..) => "Full(..)".fmt(f),
            TrySendError::Disconnected(..) => "Disconnected(..)".fmt(f),
        }
    }
}
impl<T> fmt::Display for TrySendError<T> {
    fn fmt(&self, f: &mut fmt::Formatter) -> fmt::Result {
        match self {
            TrySendError::Full(..) => "sending on a full channel".fmt(f),
            TrySendError::Disconnected(..) => "sending on a closed channel".fmt(f),
        }
    }
}
impl<T> std::error::Error for TrySendError<T> {}

#[derive(Copy, Clone, Debug, PartialEq, Eq)]
pub enum RecvError {
    Disconnected,
}
impl fmt::Display for RecvError {
    fn fmt(&self, f: &mut fmt::Formatter) -> fmt::Result {
        "receiving on a closed channel".fmt(f)
    }
}
impl std::error::Error for RecvError {}

#[derive(Copy, Clone, Debug, PartialEq, Eq)]
pub enum TryRecvError {
    Empty,
    Disconnected,
}
impl fmt::Display for TryRecvError {
    fn fmt(&self, f: &mut fmt::Formatter) -> fmt::Result {
        match self {
            TryRecvError::Empty => "receiving on an empty channel".fmt(f),
            TryRecvError::Disconnected => "channel is empty and closed".fmt(f),
        }
    }
}
impl std::error::Error for TryRecvError {}

#[derive(Copy, Clone, Debug, PartialEq, Eq)]
pub enum RecvTimeoutError {
    Timeout,
    Disconnected,
}
impl fmt::Display for RecvTimeoutError {
    fn fmt(&self, f: &mut fmt::Formatter) -> fmt::Result {
        match self {
            RecvTimeoutError::Timeout => "timed out waiting on a channel".fmt(f),
            RecvTimeoutError::Disconnected => "channel is empty and closed".fmt(f),
        }
    }
}
impl std::error::Error for RecvTimeoutError {}

pub fn bounded<T>(cap: usize) -> (Sender<T>, Receiver<T>) {
    let (s, r) = chan::channel(Some(cap));
    (Sender(s), Receiver(r))
}

pub fn unbounded<T>() -> (Sender<T>, Receiver<T>) {
    let (s, r) = chan::channel(None);
    (Sender(s), Receiver(r))
}

impl<T> Sender<T> {
    pub fn send(&self, msg: T) -> Result<(), SendError<T>> {
        self.0.send(msg).map_err(SendError)
    }
    pub fn try_send(&self, msg: T) -> Result<(), TrySendError<T>> {
        self.0.try_send(msg).map_err(|(m, disc)| {
            if disc {
                TrySendError::Disconnected(m)
            } else {
                TrySendError::Full(m)
            }
        })
    }
    pub fn is_disconnected(&self) -> bool {
        self.0.is_disconnected()
    }
    pub fn len(&self) -> usize {
        self.0.len()
    }
    pub fn is_empty(&self) -> bool {
        self.0.len() == 0
    }
}

impl<T> Clone for Sender<T> {
    fn clone(&self) -> Self {
        Sender(self.0.clone())
    }
}
impl<T> fmt::Debug for Sender<T> {
    fn fmt(&self, f: &mut fmt::Formatter) -> fmt::Result {
        f.debug_struct("Sender").finish()
    }
}

impl<T> Receiver<T> {
    pub fn recv(&self) -> Result<T, RecvError> {
        self.0.recv().map_err(|_| RecvError::Disconnected)
    }
    pub fn try_recv(&self) -> Result<T, TryRecvError> {
        self.0.try_recv().map_err(|e| match e {
            chan::TryRecv::Empty => TryRecvError::Empty,
            chan::TryRecv::Disconnected => TryRecvError::Disconnected,
        })
    }
    pub fn recv_timeout(&self, d: Duration) -> Result<T, RecvTimeoutError> {
        self.0
            .recv_timeout_ns(d.as_nanos().min(u64::MAX as u128 / 4) as u64)
            .map_err(|e| match e {
                chan::RecvTimeout::Timeout => RecvTimeoutError::Timeout,
                chan::RecvTimeout::Disconnected => RecvTimeoutError::Disconnected,
            })
    }
    pub async fn recv_async(&self) -> Result<T, RecvError> {
        self.recv()
    }
    pub fn is_disconnected(&self) -> bool {
        self.0.is_disconnected()
    }
    pub fn is_empty(&self) -> bool {
        self.0.is_empty()
    }
    pub fn len(&self) -> usize {
        self.0.len()
    }
    pub fn iter(&self) -> Iter<'_, T> {
        Iter { r: self }
    }
    pub fn try_iter(&self) -> TryIter<'_, T> {
        TryIter { r: self }
    }
    pub fn drain(&self) -> std::vec::IntoIter<T> {
        let mut v = Vec::new();
        while let Ok(x) = self.0.poll_ready() {
            v.push(x);
        }
        v.into_iter()
    }
}

impl<T> Clone for Receiver<T> {
    fn clone(&self) -> Self {
        Receiver(self.0.clone())
    }
}
impl<T> fmt::Debug for Receiver<T> {
    fn fmt(&self, f: &mut fmt::Formatter) -> fmt::Result {
        f.debug_struct("Receiver").finish()
    }
}

pub struct Iter<'a, T> {
    r: &'a Receiver<T>,
}
impl<T> Iterator for Iter<'_, T> {
    type Item = T;
    fn next(&mut self) -> Option<T> {
        self.r.recv().ok()
    }
}
pub struct TryIter<'a, T> {
    r: &'a Receiver<T>,
}
impl<T> Iterator for TryIter<'_, T> {
    type Item = T;
    fn next(&mut self) -> Option<T> {
        self.r.try_recv().ok()
    }
}
pub struct IntoIter<T> {
    r: Receiver<T>,
}
impl<T> Iterator for IntoIter<T> {
    type Item = T;
    fn next(&mut self) -> Option<T> {
        self.r.recv().ok()
    }
}
impl<T> IntoIterator for Receiver<T> {
    type Item = T;
    type IntoIter = IntoIter<T>;
    fn into_iter(self) -> IntoIter<T> {
        IntoIter { r: self }
    }
}

pub mod select {
    #[derive(Copy, Clone, Debug, PartialEq, Eq)]
    pub enum SelectError {
        Timeout,
    }
    impl std::fmt::Display for SelectError {
        fn fmt(&self, f: &mut std::fmt::Formatter) -> std::fmt::Result {
            "timeout occurred".fmt(f)
        }
    }
    impl std::error::Error for SelectError {}
}

trait Branch<'a, R> {
    fn ready(&self) -> bool;
    fn res(&self) -> rt::ResId;
    fn fire(&mut self) -> Option<R>;
}

struct RecvBranch<'a, U, R, F: FnMut(Result<U, RecvError>) -> R> {
    rx: &'a Receiver<U>,
    f: F,
}

impl<'a, U, R, F: FnMut(Result<U, RecvError>) -> R> Branch<'a, R> for RecvBranch<'a, U, R, F> {
    fn ready(&self) -> bool {
        self.rx.0.is_ready()
    }
    fn res(&self) -> rt::ResId {
        self.rx.0.res_id()
    }
    fn fire(&mut self) -> Option<R> {
        match self.rx.0.poll_ready() {
            Ok(x) => Some((self.f)(Ok(x))),
            Err(chan::TryRecv::Disconnected) => Some((self.f)(Err(RecvError::Disconnected))),
            Err(chan::TryRecv::Empty) => None,
        }
    }
}

pub struct Selector<'a, R: 'a> {
    branches: Vec<Box<dyn Branch<'a, R> + 'a>>,
}

impl<'a, R: 'a> Default for Selector<'a, R> {
    fn default() -> Self {
        Self::new()
    }
}

impl<'a, R: 'a> Selector<'a, R> {
    pub fn new() -> Self {
        Selector { branches: vec![] }
    }

    pub fn recv<U: 'a, F: FnMut(Result<U, RecvError>) -> R + 'a>(
        mut self,
        receiver: &'a Receiver<U>,
        mapper: F,
    ) -> Self {
        self.branches.push(Box::new(RecvBranch {
            rx: receiver,
            f: mapper,
        }));
        self
    }

    fn wait_inner(mut self, deadline: Option<u64>) -> Result<R, select::SelectError> {
        let first = self.branches.first().map(|b| b.res()).unwrap_or(0);
        rt::sched_point("select", first);
        loop {
            let ready: Vec<usize> = (0..self.branches.len())
                .filter(|&i| self.branches[i].ready())
                .collect();
            if !ready.is_empty() {
                let pick = if ready.len() > 1 {
                    rt::count("select_with_several_ready");
                    if rt::rate(Fk::SelectBias) > 0 {
                        rt::fired(Fk::SelectBias);
                        // a biased run always prefers one side (drawn once per select call)
                        rt::sched_draw(ready.len() as u32) as usize
                    } else {
                        rt::sched_draw(ready.len() as u32) as usize
                    }
                } else {
                    0
                };
                if let Some(r) = self.branches[ready[pick]].fire() {
                    return Ok(r);
                }
                continue;
            }
            let res: Vec<rt::ResId> = self.branches.iter().map(|b| b.res()).collect();
            if rt::block(&res, deadline, "select") == Wake::Timeout {
                let any = (0..self.branches.len()).find(|&i| self.branches[i].ready());
                match any {
                    Some(i) => {
                        if let Some(r) = self.branches[i].fire() {
                            return Ok(r);
                        }
                    }
                    None => {
                        rt::count("select_timeout_fired");
                        return Err(select::SelectError::Timeout);
                    }
                }
            }
        }
    }

    pub fn wait(self) -> R {
        self.wait_inner(None).expect("select without timeout timed out")
    }

    pub fn wait_timeout(self, d: Duration) -> Result<R, select::SelectError> {
        let dl = rt::deadline_after(d.as_nanos().min(u64::MAX as u128 / 4) as u64);
        self.wait_inner(Some(dl))
    }
}
