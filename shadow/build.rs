fn main() {
    println!("cargo:rustc-cfg=renoir_verif");
    println!("cargo:rerun-if-changed=build.rs");
}
