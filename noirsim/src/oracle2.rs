//! Oracles over recorded histories for the time-aware properties: C06, C12, C13, C14, C16, C17.

use std::collections::{BTreeMap, BTreeSet, VecDeque};

use simrt::Verdict;

use crate::elem::{chain, mix, E, TAG_WIN};
use crate::job::ProbeMeta;
use crate::oracle::{viol, Violation};
use crate::plan::*;
use crate::rec::*;
use crate::refmodel::Interp;
use crate::run::RunResult;
use crate::win::{tx_op, win_value};

fn completed(rr: &RunResult) -> bool {
    rr.outcome.verdict == Verdict::Completed && !rr.rec.hosts.iter().any(|h| h.panicked.is_some())
}

fn meta_at<'a>(rr: &'a RunResult, path: &[usize], pos: &str, out: usize) -> Option<&'a ProbeMeta> {
    rr.meta.iter().find(|m| m.path == path && m.pos == pos && m.out == out)
}

fn coords_of(rr: &RunResult, pid: u32) -> Vec<CoordT> {
    rr.rec.probes.keys().filter(|(p, _)| *p == pid).map(|(_, c)| *c).collect()
}

/// block ids of the producers feeding the repartition of the step at `path` (the blocks that
/// hold its "pre" / "preL" / "preR" probes)
pub fn upstream_blocks(rr: &RunResult, path: &[usize]) -> BTreeSet<u64> {
    let mut s = BTreeSet::new();
    for m in rr.meta.iter().filter(|m| m.path == path && matches!(m.pos.as_str(), "pre" | "preL" | "preR")) {
        for (p, c) in rr.rec.probes.keys() {
            if *p == m.id {
                s.insert(c.0);
            }
        }
    }
    s
}

/// (top-level) stream id -> (index of the step that produced it, output index)
pub fn producers(steps: &[Step]) -> Vec<(usize, usize)> {
    let mut v = vec![];
    for (si, st) in steps.iter().enumerate() {
        let n = match st {
            Step::Source(_) | Step::Un(..) | Step::Bin(..) => 1,
            Step::Split(_, n) => *n,
            Step::Route(_, p) => p.len(),
            Step::Loop(_, l) => {
                if l.iterate {
                    2
                } else {
                    1
                }
            }
            Step::Sink(..) => 0,
        };
        for k in 0..n {
            v.push((si, k));
        }
    }
    v
}

/// all window steps with their probe path: (path, kind, agg, all)
pub fn window_steps(steps: &[Step], prefix: &[usize], out: &mut Vec<(Vec<usize>, WinKind, WinAgg, bool)>) {
    for (si, st) in steps.iter().enumerate() {
        let mut p = prefix.to_vec();
        p.push(si);
        match st {
            Step::Un(_, UnOp::Win(k, a)) => out.push((p, k.clone(), *a, false)),
            Step::Un(_, UnOp::WinAll(k, a)) => out.push((p, k.clone(), *a, true)),
            Step::Loop(_, l) => {
                for (bi, b) in l.body.iter().enumerate() {
                    let mut bp = p.clone();
                    bp.push(10_000 + bi);
                    window_steps(std::slice::from_ref(b), &bp, out);
                }
            }
            _ => {}
        }
    }
}

#[derive(Clone, Debug)]
struct Ev2<'a> {
    seq: u64,
    from_q: bool,
    r: &'a PRec,
}

fn merged<'a>(rr: &'a RunResult, p: u32, q: u32, c: CoordT) -> Vec<Ev2<'a>> {
    let mut v: Vec<Ev2> = vec![];
    if let Some(h) = rr.rec.probes.get(&(p, c)) {
        v.extend(h.iter().map(|r| Ev2 { seq: r.seq, from_q: false, r }));
    }
    if let Some(h) = rr.rec.probes.get(&(q, c)) {
        v.extend(h.iter().map(|r| Ev2 { seq: r.seq, from_q: true, r }));
    }
    v.sort_by_key(|e| e.seq);
    v
}

// ------------------------------------------------------------------------------------------
// C06 watermark safety
// ------------------------------------------------------------------------------------------

pub fn c06(sc: &Scenario, rr: &RunResult) -> Vec<Violation> {
    let mut out = vec![];
    // "out" probes of non-exact count windows, with the id of their "start" probe
    let mut wins = vec![];
    window_steps(&sc.steps, &[], &mut wins);
    let mut inexact_count: BTreeMap<u32, u32> = BTreeMap::new();
    for (path, kind, _agg, _all) in &wins {
        if let WinKind::Count { exact: false, .. } = kind {
            if let (Some(p), Some(q)) = (meta_at(rr, path, "start", 0), meta_at(rr, path, "out", 0)) {
                inexact_count.insert(q.id, p.id);
            }
        }
    }
    let mut flush_finding = false;
    for ((pid, coord), hist) in &rr.rec.probes {
        let meta = rr.meta.iter().find(|m| m.id == *pid);
        let where_ = meta
            .map(|m| format!("probe {} path {:?} pos {}", pid, m.path, m.pos))
            .unwrap_or_else(|| format!("probe {}", pid));
        let mut last_wm: Option<i64> = None;
        for r in hist {
            match r.kind {
                K_WM => {
                    if let Some(w) = last_wm {
                        if r.ts <= w {
                            out.push(viol("C06", "watermark-regress", format!("{} at {:?}: Watermark({}) after Watermark({})", where_, coord, r.ts, w)));
                            break;
                        }
                    }
                    last_wm = Some(r.ts);
                }
                K_TS => {
                    if let Some(w) = last_wm {
                        if r.ts <= w {
                            // is this the end-of-iteration flush of a non-exact count window?
                            let mut class = "late-element";
                            if let Some(p) = inexact_count.get(pid) {
                                if let Some(hp) = rr.rec.probes.get(&(*p, *coord)) {
                                    let fars_in = hp.iter().filter(|x| x.kind == K_FAR && x.seq < r.seq).count();
                                    let fars_out = hist.iter().filter(|x| x.kind == K_FAR && x.seq < r.seq).count();
                                    if fars_in > fars_out {
                                        class = "late-element-at-inexact-count-window-flush";
                                        flush_finding = true;
                                    }
                                }
                            }
                            if class == "late-element" && flush_finding {
                                // downstream echo of the flush finding of this run
                                break;
                            }
                            out.push(viol(
                                "C06",
                                class,
                                format!("{} at {:?}: Timestamped(_, {}) after Watermark({}) in the same iteration", where_, coord, r.ts, w),
                            ));
                            break;
                        }
                    }
                }
                K_FAR => last_wm = None,
                _ => {}
            }
        }
    }
    // a block input never forwards more than the minimum of what its upstream replicas sent
    for m in rr.meta.iter().filter(|m| m.pos == "start") {
        for c in coords_of(rr, m.id) {
            let hist = &rr.rec.probes[&(m.id, c)];
            // incoming data links of this replica (not the state feedback of a loop head)
            let prev = upstream_blocks(rr, &m.path);
            let links: Vec<(&LinkKey, &LinkLog)> = rr.rec.links.iter().filter(|(k, _)| k.to == c && prev.contains(&k.prev_block)).collect();
            if links.is_empty() {
                continue;
            }
            for r in hist.iter().filter(|r| r.kind == K_WM) {
                // the iteration this watermark belongs to = number of FARs seen before it
                let it = hist.iter().filter(|x| x.seq < r.seq && x.kind == K_FAR).count();
                let mut min_recv: Option<i64> = Some(i64::MAX);
                for (_k, l) in &links {
                    // elements received on this link before the probe saw the watermark
                    let mut n_far = 0usize;
                    let mut latest: Option<i64> = None;
                    let mut ended = false;
                    for (bseq, start, len) in &l.recv_batches {
                        if *bseq > r.seq {
                            break;
                        }
                        for e in &l.recv[*start..*start + *len] {
                            if e.kind == K_FAR {
                                if n_far == it {
                                    ended = true;
                                }
                                n_far += 1;
                            } else if e.kind == K_WM && n_far == it {
                                latest = Some(latest.map(|x: i64| x.max(e.ts)).unwrap_or(e.ts));
                            }
                        }
                    }
                    let v = if ended { Some(i64::MAX) } else { latest };
                    min_recv = match (min_recv, v) {
                        (Some(a), Some(b)) => Some(a.min(b)),
                        _ => None,
                    };
                }
                match min_recv {
                    Some(mn) if r.ts <= mn => {}
                    _ => {
                        out.push(viol(
                            "C06",
                            "frontier-exceeds-min",
                            format!(
                                "probe {} (after Start, path {:?}) at {:?}: emitted Watermark({}) but the minimum over the upstream replicas of the latest watermark received so far is {:?}",
                                m.id, m.path, c, r.ts, min_recv
                            ),
                        ));
                        break;
                    }
                }
            }
        }
    }
    out
}

// ------------------------------------------------------------------------------------------
// C17 watermark progress
// ------------------------------------------------------------------------------------------

/// `replay` re-feeds its input in every round exactly as it received it in the first one - data
/// and watermarks, per replica, in the same order. Observed right behind the Replay operator
/// (loop-head probe) of top-level replay loops. `only_watermarks`: compare the watermark
/// subsequences only (C17: watermark progress must not be withheld in later rounds).
pub fn replay_refeeds(prop: &str, sc: &Scenario, rr: &RunResult, only_watermarks: bool) -> Vec<Violation> {
    let mut out = vec![];
    if !completed(rr) {
        return out;
    }
    for m in rr.meta.iter().filter(|m| m.pos == "loophead" && m.path.len() == 1) {
        let Some(l) = crate::oracle::loop_at(&sc.steps, &m.path) else { continue };
        if l.iterate {
            continue;
        }
        for c in coords_of(rr, m.id) {
            let hist = &rr.rec.probes[&(m.id, c)];
            let mut rounds: Vec<Vec<(u8, u64, i64)>> = vec![vec![]];
            let mut closed = 0usize;
            for r in hist {
                match r.kind {
                    K_FAR => {
                        rounds.push(vec![]);
                        closed += 1;
                    }
                    K_ITEM | K_TS if !only_watermarks => rounds.last_mut().unwrap().push((r.kind, r.id, r.ts)),
                    K_WM => rounds.last_mut().unwrap().push((r.kind, 0, r.ts)),
                    _ => {}
                }
            }
            rounds.truncate(closed);
            for (k, r) in rounds.iter().enumerate().skip(1) {
                if r != &rounds[0] {
                    let wm = |v: &Vec<(u8, u64, i64)>| v.iter().filter(|x| x.0 == K_WM).map(|x| x.2).collect::<Vec<_>>();
                    let (w0, wk) = (wm(&rounds[0]), wm(r));
                    let class = if w0 != wk { "replay-watermarks-differ" } else { "replay-input-differs" };
                    out.push(viol(
                        prop,
                        class,
                        format!(
                            "replay loop at step {} replica {:?}: round {} is fed {} elements / watermarks {:?}, the first round {} elements / watermarks {:?}",
                            m.path[0],
                            c,
                            k + 1,
                            r.len() - wk.len(),
                            &wk[..wk.len().min(12)],
                            rounds[0].len() - w0.len(),
                            &w0[..w0.len().min(12)]
                        ),
                    ));
                    return out;
                }
            }
        }
    }
    out
}

pub fn c17(sc: &Scenario, rr: &RunResult) -> Vec<Violation> {
    let mut out = vec![];
    if !completed(rr) {
        return out;
    }
    out.extend(replay_refeeds("C17", sc, rr, true));
    if !out.is_empty() {
        return out;
    }
    for m in rr.meta.iter().filter(|m| m.pos == "start") {
        // the probe sits behind the block's first operator: the walk below pairs the i-th data
        // element consumed by Start with the i-th one observed, which holds for every first
        // operator but zip (one pair per two inputs)
        if matches!(crate::oracle::step_at(&sc.steps, &m.path), Some(Step::Bin(_, _, BinOp::Zip))) {
            continue;
        }
        for c in coords_of(rr, m.id) {
            let hist = &rr.rec.probes[&(m.id, c)];
            let prev = upstream_blocks(rr, &m.path);
            let links: Vec<(&LinkKey, &LinkLog)> = rr.rec.links.iter().filter(|(k, _)| k.to == c && prev.contains(&k.prev_block)).collect();
            if links.is_empty() {
                continue;
            }
            // consumption order: all received batches of this replica by global sequence
            let mut batches: Vec<(u64, CoordT, &[renoir::verif::ElemInfo])> = vec![];
            for (k, l) in &links {
                for (bseq, start, len) in &l.recv_batches {
                    batches.push((*bseq, k.from, &l.recv[*start..*start + *len]));
                }
            }
            batches.sort_by_key(|b| b.0);
            let senders: BTreeSet<CoordT> = links.iter().map(|(k, _)| k.from).collect();
            let mut latest: BTreeMap<CoordT, Option<i64>> = senders.iter().map(|s| (*s, None)).collect();
            // expected frontier before each consumed data element / FAR of the consumer
            let mut expect: Vec<Option<i64>> = vec![];
            // for each entry of `expect`: was the last rise of the frontier caused by a replica
            // ending its iteration (true) or by a watermark (false)
            let mut cause_far: Vec<bool> = vec![];
            let mut last_front: Option<i64> = None;
            let mut last_cause_far = false;
            let mut fars_in_iter = 0usize;
            for (_, from, elems) in &batches {
                for e in elems.iter() {
                    match e.kind {
                        K_WM => {
                            let cur = latest.get_mut(from).unwrap();
                            *cur = Some(cur.map(|x| x.max(e.ts)).unwrap_or(e.ts));
                        }
                        K_FAR => {
                            *latest.get_mut(from).unwrap() = Some(i64::MAX);
                            fars_in_iter += 1;
                            if fars_in_iter == senders.len() {
                                // iteration over: the consumer emits its own FAR and resets
                                fars_in_iter = 0;
                                for v in latest.values_mut() {
                                    *v = None;
                                }
                                expect.push(Some(i64::MIN)); // marker: iteration boundary
                                cause_far.push(false);
                                last_front = None;
                            }
                        }
                        K_ITEM | K_TS => {
                            let f = if latest.values().all(|v| v.is_some()) {
                                latest.values().map(|v| v.unwrap()).min()
                            } else {
                                None
                            };
                            expect.push(f.filter(|x| *x != i64::MAX));
                            cause_far.push(last_cause_far);
                        }
                        _ => {}
                    }
                    // track what made the frontier move
                    let f_now = if latest.values().all(|v| v.is_some()) {
                        latest.values().map(|v| v.unwrap()).min()
                    } else {
                        None
                    };
                    if f_now != last_front {
                        if f_now.is_some() && (e.kind == K_WM || e.kind == K_FAR) {
                            last_cause_far = e.kind == K_FAR;
                        }
                        last_front = f_now;
                    }
                }
            }
            // walk the probe
            let mut idx = 0usize;
            let mut last_wm: Option<i64> = None;
            for r in hist {
                match r.kind {
                    K_WM => last_wm = Some(r.ts),
                    K_FAR => {
                        last_wm = None;
                        if expect.get(idx) == Some(&Some(i64::MIN)) {
                            idx += 1;
                        }
                    }
                    K_ITEM | K_TS => {
                        while expect.get(idx) == Some(&Some(i64::MIN)) {
                            idx += 1;
                        }
                        if let Some(Some(f)) = expect.get(idx) {
                            if last_wm.map(|w| w > *f).unwrap_or(false) {
                                out.push(viol(
                                    "C17",
                                    "exceeds-minimum",
                                    format!(
                                        "probe {} (after Start, path {:?}) at {:?}: data element #{} observed after Watermark({}), but the minimum over the upstream replicas that have not ended is only {}",
                                        m.id,
                                        m.path,
                                        c,
                                        idx,
                                        last_wm.unwrap(),
                                        f
                                    ),
                                ));
                                break;
                            }
                            if last_wm != Some(*f) && last_wm.map(|w| w < *f).unwrap_or(true) {
                                out.push(viol(
                                    "C17",
                                    if cause_far.get(idx).copied().unwrap_or(false) { "withheld-after-replica-end" } else { "withheld-after-watermark" },
                                    format!(
                                        "probe {} (after Start, path {:?}) at {:?}: data element #{} observed while the last watermark seen is {:?}, but the minimum over the upstream replicas that have not ended is already {}",
                                        m.id, m.path, c, idx, last_wm, f
                                    ),
                                ));
                                break;
                            }
                        }
                        idx += 1;
                    }
                    _ => {}
                }
            }
        }
    }
    out
}

// ------------------------------------------------------------------------------------------
// C12 count windows
// ------------------------------------------------------------------------------------------

pub fn c12(sc: &Scenario, rr: &RunResult) -> Vec<Violation> {
    let mut out = vec![];
    let done = completed(rr);
    let mut wins = vec![];
    window_steps(&sc.steps, &[], &mut wins);
    for (path, kind, agg, _all) in wins {
        let WinKind::Count { n, s, exact } = kind else { continue };
        // inside a loop body the builder appends an extra 0 to the path
        let candidates = [path.clone(), {
            let mut p = path.clone();
            p.push(0);
            p
        }];
        let (p, q) = {
            let mut found = None;
            for cp in &candidates {
                if let (Some(p), Some(q)) = (meta_at(rr, cp, "start", 0), meta_at(rr, cp, "out", 0)) {
                    found = Some((p.id, q.id));
                }
            }
            match found {
                Some(f) => f,
                None => continue,
            }
        };
        for c in coords_of(rr, p) {
            let evs = merged(rr, p, q, c);
            let mut seqs: BTreeMap<u16, Vec<(u64, i64)>> = BTreeMap::new();
            // windows that must be emitted before the next input event: (key, id, v)
            let mut pending: VecDeque<(u16, u64, i64)> = VecDeque::new();
            let mut pending_any_order = false;
            let mut bad = None;
            for e in &evs {
                if !e.from_q {
                    if !pending.is_empty() {
                        bad = Some(format!(
                            "window of key {} complete (value id={:x} v={}) but not emitted before the next input element (input seq {})",
                            pending[0].0, pending[0].1, pending[0].2, e.seq
                        ));
                        break;
                    }
                    pending_any_order = false;
                    match e.r.kind {
                        K_ITEM | K_TS => {
                            let l = seqs.entry(e.r.key).or_default();
                            l.push((e.r.id, e.r.v));
                            let len = l.len();
                            if len >= n && (len - n) % s == 0 {
                                let j = (len - n) / s;
                                let (id, v) = win_value(agg, e.r.key, &l[j * s..j * s + n]);
                                pending.push_back((e.r.key, id, v));
                            }
                        }
                        K_FAR | K_TERM => {
                            if !exact {
                                for (k, l) in &seqs {
                                    let len = l.len();
                                    let emitted = if len >= n { (len - n) / s + 1 } else { 0 };
                                    let start = emitted * s;
                                    if start < len {
                                        let (id, v) = win_value(agg, *k, &l[start..len.min(start + n)]);
                                        pending.push_back((*k, id, v));
                                    }
                                }
                                pending_any_order = true;
                            }
                            seqs.clear();
                        }
                        _ => {}
                    }
                } else if matches!(e.r.kind, K_ITEM | K_TS) {
                    let got = (e.r.key, e.r.id, e.r.v);
                    let pos = if pending_any_order {
                        pending.iter().position(|x| *x == got)
                    } else if pending.front() == Some(&got) {
                        Some(0)
                    } else {
                        None
                    };
                    match pos {
                        Some(i) => {
                            pending.remove(i);
                        }
                        None => {
                            bad = Some(format!(
                                "unexpected window result key={} id={:x} v={} (expected next: {:?})",
                                got.0,
                                got.1,
                                got.2,
                                pending.front()
                            ));
                            break;
                        }
                    }
                }
            }
            if bad.is_none() && done && !pending.is_empty() {
                bad = Some(format!("window result for key {} never emitted", pending[0].0));
            }
            if let Some(b) = bad {
                out.push(viol(
                    "C12",
                    "count-window",
                    format!("CountWindow(size={}, slide={}, exact={}) {:?} at step {:?} replica {:?}: {}", n, s, exact, agg, path, c, b),
                ));
                break;
            }
        }
    }
    out
}

// ------------------------------------------------------------------------------------------
// C13 event-time and transaction windows
// ------------------------------------------------------------------------------------------

fn members_of(e: &E) -> Vec<u64> {
    e.pad.chunks(8).map(|c| u64::from_le_bytes(c.try_into().unwrap())).collect()
}

fn sink_vec(rr: &RunResult, sink: u32) -> Option<Vec<E>> {
    match rr.rec.sinks.get(&(sink, 0)) {
        Some(SinkValue::Vec(v)) => Some(v.clone()),
        _ => None,
    }
}

pub fn c13(sc: &Scenario, rr: &RunResult) -> Vec<Violation> {
    let mut out = vec![];
    if !completed(rr) {
        return out;
    }
    let mut wins = vec![];
    window_steps(&sc.steps, &[], &mut wins);
    let Some(results) = sink_vec(rr, 0) else { return out };
    let by_id: BTreeMap<u64, &E> = results.iter().map(|e| (e.id, e)).collect();
    for (path, kind, agg, _all) in wins {
        if agg != WinAgg::Members {
            continue;
        }
        let (Some(pm), Some(qm)) = (meta_at(rr, &path, "start", 0), meta_at(rr, &path, "out", 0)) else {
            continue;
        };
        let (p, q) = (pm.id, qm.id);
        // every input element: id -> (key, ts)
        let mut input: BTreeMap<u64, (u16, i64)> = BTreeMap::new();
        let mut times_in_result: BTreeMap<u64, usize> = BTreeMap::new();
        let mut late: BTreeSet<u64> = BTreeSet::new();
        for c in coords_of(rr, p) {
            let mut last_wm: Option<i64> = None;
            for r in &rr.rec.probes[&(p, c)] {
                match r.kind {
                    K_TS => {
                        input.insert(r.id, (r.key, r.ts));
                        if last_wm.map(|w| r.ts <= w).unwrap_or(false) {
                            late.insert(r.id);
                        }
                    }
                    K_WM => last_wm = Some(r.ts),
                    K_FAR => last_wm = None,
                    _ => {}
                }
            }
        }
        match kind {
            WinKind::EventTumbling { .. } | WinKind::EventSliding { .. } => {
                let (size, slide) = match kind {
                    WinKind::EventTumbling { size } => (size, size),
                    WinKind::EventSliding { size, slide } => (size, slide),
                    _ => unreachable!(),
                };
                let mut q_count = 0usize;
                for c in coords_of(rr, p) {
                    let evs = merged(rr, p, q, c);
                    for (i, e) in evs.iter().enumerate() {
                        if !e.from_q || !matches!(e.r.kind, K_ITEM | K_TS) {
                            continue;
                        }
                        q_count += 1;
                        let end = e.r.ts;
                        let Some(res) = by_id.get(&e.r.id) else {
                            out.push(viol("C13", "result-lost", format!("window result id={:x} seen after the operator at {:?} never reached the sink", e.r.id, c)));
                            return out;
                        };
                        let mem = members_of(res);
                        if mem.is_empty() {
                            out.push(viol("C13", "empty-window", format!("empty window result (end {}) for key {}", end, e.r.key)));
                            return out;
                        }
                        for mid in &mem {
                            match input.get(mid) {
                                Some((k, ts)) => {
                                    if *k != e.r.key {
                                        out.push(viol("C13", "mixed-keys", format!("window result of key {} (end {}) contains element {:x} of key {}", e.r.key, end, mid, k)));
                                        return out;
                                    }
                                    if !(*ts >= end - size && *ts < end) {
                                        out.push(viol(
                                            "C13",
                                            "outside-interval",
                                            format!("window [{}, {}) of key {} contains element {:x} with timestamp {}", end - size, end, e.r.key, mid, ts),
                                        ));
                                        return out;
                                    }
                                }
                                None => {
                                    out.push(viol("C13", "foreign-element", format!("window result contains element {:x} that never entered the operator", mid)));
                                    return out;
                                }
                            }
                            *times_in_result.entry(*mid).or_default() += 1;
                        }
                        // timing: not before a watermark reaching the window end (or the end of
                        // the iteration) ...
                        let mut reached = false;
                        let mut beyond_at: Option<usize> = None;
                        for (j, x) in evs.iter().enumerate() {
                            if x.from_q {
                                continue;
                            }
                            if j < i && ((x.r.kind == K_WM && x.r.ts >= end) || x.r.kind == K_FAR || x.r.kind == K_TERM) {
                                reached = true;
                            }
                            if beyond_at.is_none() && ((x.r.kind == K_WM && x.r.ts > end) || x.r.kind == K_FAR || x.r.kind == K_TERM) {
                                beyond_at = Some(j);
                            }
                        }
                        if !reached {
                            out.push(viol(
                                "C13",
                                "fired-early",
                                format!("window [{}, {}) of key {} emitted at {:?} before any watermark >= {} and before the end of the iteration", end - size, end, e.r.key, c, end),
                            ));
                            return out;
                        }
                        // ... and not after the input element that follows the first watermark beyond it
                        if let Some(b) = beyond_at {
                            let next_input = evs.iter().enumerate().skip(b + 1).find(|(_, x)| !x.from_q).map(|(j, _)| j);
                            if let Some(nj) = next_input {
                                if i > nj {
                                    out.push(viol(
                                        "C13",
                                        "fired-late",
                                        format!(
                                            "window [{}, {}) of key {} at {:?} emitted only after the input that follows the first watermark beyond its end",
                                            end - size,
                                            end,
                                            e.r.key,
                                            c
                                        ),
                                    ));
                                    return out;
                                }
                            }
                        }
                    }
                }
                if q_count != results.len() {
                    out.push(viol("C13", "result-count", format!("{} window results left the operator but the sink holds {}", q_count, results.len())));
                    return out;
                }
                let max_times = ((size + slide - 1) / slide) as usize;
                for (id, (k, ts)) in &input {
                    if late.contains(id) {
                        continue;
                    }
                    let n = times_in_result.get(id).copied().unwrap_or(0);
                    if slide == size {
                        if n != 1 {
                            out.push(viol(
                                "C13",
                                if n == 0 { "element-lost" } else { "element-duplicated" },
                                format!("tumbling({}) window: element {:x} (key {}, ts {}) which is not late appears in {} results", size, id, k, ts, n),
                            ));
                            return out;
                        }
                    } else if n < 1 || n > max_times {
                        out.push(viol(
                            "C13",
                            if n == 0 { "element-lost" } else { "element-duplicated" },
                            format!("sliding({}, {}) window: element {:x} (key {}, ts {}) appears in {} results (allowed 1..={})", size, slide, id, k, ts, n, max_times),
                        ));
                        return out;
                    }
                }
            }
            WinKind::Tx { m, after } => {
                // emulate the user logic over the arrival history of every replica
                for c in coords_of(rr, p) {
                    let evs = merged(rr, p, q, c);
                    let mut open: BTreeMap<u16, (Vec<(u64, i64)>, Option<i64>)> = BTreeMap::new();
                    let mut pending: Vec<(u16, u64, i64)> = vec![];
                    for e in &evs {
                        if !e.from_q {
                            if !pending.is_empty() {
                                out.push(viol("C13", "tx-commit-missing", format!("transaction window of key {} should have been committed before input seq {} at {:?}", pending[0].0, e.seq, c)));
                                return out;
                            }
                            match e.r.kind {
                                K_TS => {
                                    let el = E { id: e.r.id, key: e.r.key, v: e.r.v, ts: e.r.ts, pad: vec![] };
                                    let slot = open.entry(e.r.key).or_insert_with(|| (vec![], None));
                                    slot.0.push((e.r.id, e.r.v));
                                    match tx_op(m, after, &el) {
                                        renoir::operator::window::TransactionOp::Commit => {
                                            let (g, _) = open.remove(&e.r.key).unwrap();
                                            let (id, v) = win_value(WinAgg::Members, e.r.key, &g);
                                            pending.push((e.r.key, id, v));
                                        }
                                        renoir::operator::window::TransactionOp::CommitAfter(t) => slot.1 = Some(t),
                                        renoir::operator::window::TransactionOp::Discard => {
                                            open.remove(&e.r.key);
                                        }
                                        renoir::operator::window::TransactionOp::Continue => {}
                                    }
                                }
                                K_WM => {
                                    let keys: Vec<u16> = open.iter().filter(|(_, (_, cl))| cl.map(|c| c < e.r.ts).unwrap_or(false)).map(|(k, _)| *k).collect();
                                    for k in keys {
                                        let (g, _) = open.remove(&k).unwrap();
                                        let (id, v) = win_value(WinAgg::Members, k, &g);
                                        pending.push((k, id, v));
                                    }
                                }
                                K_FAR | K_TERM => {
                                    let keys: Vec<u16> = open.iter().filter(|(_, (_, cl))| cl.is_some()).map(|(k, _)| *k).collect();
                                    for k in keys {
                                        let (g, _) = open.remove(&k).unwrap();
                                        let (id, v) = win_value(WinAgg::Members, k, &g);
                                        pending.push((k, id, v));
                                    }
                                    open.clear();
                                }
                                _ => {}
                            }
                        } else if matches!(e.r.kind, K_ITEM | K_TS) {
                            let got = (e.r.key, e.r.id, e.r.v);
                            match pending.iter().position(|x| *x == got) {
                                Some(i) => {
                                    pending.remove(i);
                                }
                                None => {
                                    out.push(viol("C13", "tx-unexpected-commit", format!("transaction window result key={} id={:x} count={} at {:?} is not what the user logic dictates (pending {:?})", got.0, got.1, got.2, c, pending)));
                                    return out;
                                }
                            }
                        }
                    }
                    if !pending.is_empty() {
                        out.push(viol("C13", "tx-commit-missing", format!("transaction window of key {} never committed at {:?}", pending[0].0, c)));
                        return out;
                    }
                }
            }
            _ => {}
        }
    }
    out
}

// ------------------------------------------------------------------------------------------
// C14 processing-time and session windows
// ------------------------------------------------------------------------------------------

/// split a probe history into iterations (one per FlushAndRestart marker; a trailing part without
/// marker is kept if it holds data)
fn split_iterations(h: &[PRec]) -> Vec<Vec<&PRec>> {
    let mut its: Vec<Vec<&PRec>> = vec![vec![]];
    for r in h {
        if r.kind == K_FAR {
            its.push(vec![]);
        } else if matches!(r.kind, K_ITEM | K_TS) {
            its.last_mut().unwrap().push(r);
        }
    }
    if its.last().map(|l| l.is_empty()).unwrap_or(false) {
        its.pop();
    }
    its
}

/// the members of a `Members`/`Chain` result, reconstructed from its count and chained hash: a
/// processing-time or session window holds a contiguous run of its key's arrivals
fn members_by_chain(arr: &[u64], count: usize, id: u64) -> Option<Vec<u64>> {
    if count == 0 || count > arr.len() {
        return None;
    }
    for a in 0..=arr.len() - count {
        let mut h = 0i64;
        for x in &arr[a..a + count] {
            h = chain(h, *x);
        }
        if mix(TAG_WIN, h as u64) == id {
            return Some(arr[a..a + count].to_vec());
        }
    }
    None
}

pub fn c14(sc: &Scenario, rr: &RunResult) -> Vec<Violation> {
    let mut out = vec![];
    if !completed(rr) {
        return out;
    }
    let mut wins = vec![];
    window_steps(&sc.steps, &[], &mut wins);
    let results = sink_vec(rr, 0).unwrap_or_default();
    let by_id: BTreeMap<u64, &E> = results.iter().map(|e| (e.id, e)).collect();
    for (path, kind, agg, _all) in wins {
        if agg != WinAgg::Members {
            continue;
        }
        let (Some(pm), Some(qm)) = (meta_at(rr, &path, "start", 0), meta_at(rr, &path, "out", 0)) else {
            continue;
        };
        // inside a loop body the results feed the loop state, not the sink: their members are
        // reconstructed from the chained hash, per iteration
        let in_loop = path.len() > 1;
        let (p, q) = (pm.id, qm.id);
        let (partition, max_times, name) = match kind {
            WinKind::Proc { size_us, slide_us } if size_us == slide_us => (true, 1usize, format!("tumbling processing-time window ({} us)", size_us)),
            WinKind::Proc { size_us, slide_us } => (false, ((size_us + slide_us - 1) / slide_us) as usize, format!("sliding processing-time window ({} us, {} us)", size_us, slide_us)),
            WinKind::Session { gap_us } => (true, 1usize, format!("session window (gap {} us)", gap_us)),
            _ => continue,
        };
        let mut q_total = 0usize;
        for c in coords_of(rr, p) {
            let empty = vec![];
            let p_its = split_iterations(&rr.rec.probes[&(p, c)]);
            let q_its = split_iterations(rr.rec.probes.get(&(q, c)).unwrap_or(&empty));
            if q_its.len() > p_its.len() {
                out.push(viol("C14", "foreign-key", format!("{} at {:?}: results in {} iterations, input in {}", name, c, q_its.len(), p_its.len())));
                return out;
            }
            for (it, pit) in p_its.iter().enumerate() {
                // per key arrival order
                let mut arrival: BTreeMap<u16, Vec<u64>> = BTreeMap::new();
                for r in pit {
                    arrival.entry(r.key).or_default().push(r.id);
                }
                let mut emitted: BTreeMap<u16, Vec<Vec<u64>>> = BTreeMap::new();
                for r in q_its.get(it).map(|v| v.as_slice()).unwrap_or(&[]) {
                    q_total += 1;
                    let mem = if in_loop {
                        let arr = arrival.get(&r.key).cloned().unwrap_or_default();
                        if r.v <= 0 {
                            out.push(viol("C14", "empty-window", format!("{}: empty result for key {} in iteration {}", name, r.key, it)));
                            return out;
                        }
                        match members_by_chain(&arr, r.v as usize, r.id) {
                            Some(m) => m,
                            None => {
                                out.push(viol(
                                    "C14",
                                    "mixed-window",
                                    format!("{} key {} at {:?}, iteration {}: a result with {} members is not a run of this key's {} arrivals of this iteration (elements of another key or iteration, or out of order)", name, r.key, c, it, r.v, arr.len()),
                                ));
                                return out;
                            }
                        }
                    } else {
                        let Some(res) = by_id.get(&r.id) else {
                            out.push(viol("C14", "result-lost", format!("{}: a result seen after the operator never reached the sink", name)));
                            return out;
                        };
                        members_of(res)
                    };
                    if mem.is_empty() {
                        out.push(viol("C14", "empty-window", format!("{}: empty result for key {}", name, r.key)));
                        return out;
                    }
                    emitted.entry(r.key).or_default().push(mem);
                }
                for (k, arr) in &arrival {
                    let res = emitted.get(k).cloned().unwrap_or_default();
                    if partition {
                        let concat: Vec<u64> = res.iter().flatten().cloned().collect();
                        if &concat != arr {
                            let class = if concat.len() < arr.len() {
                                "element-lost"
                            } else if concat.len() > arr.len() {
                                "element-duplicated"
                            } else {
                                "order-changed"
                            };
                            out.push(viol(
                                "C14",
                                class,
                                format!("{} key {} at {:?}, iteration {}: {} elements arrived, the results hold {} in total and their concatenation differs from the arrival order", name, k, c, it, arr.len(), concat.len()),
                            ));
                            return out;
                        }
                    } else {
                        let mut times: BTreeMap<u64, usize> = BTreeMap::new();
                        for g in &res {
                            // members must be a subsequence of the arrival order
                            let mut iter = arr.iter();
                            for m in g {
                                if !iter.any(|x| x == m) {
                                    out.push(viol("C14", "order-changed", format!("{} key {}: a result does not keep arrival order", name, k)));
                                    return out;
                                }
                                *times.entry(*m).or_default() += 1;
                            }
                        }
                        for id in arr {
                            let n = times.get(id).copied().unwrap_or(0);
                            if n < 1 || n > max_times {
                                out.push(viol(
                                    "C14",
                                    if n == 0 { "element-lost" } else { "element-duplicated" },
                                    format!("{} key {}, iteration {}: element {:x} appears in {} results (allowed 1..={})", name, k, it, id, n, max_times),
                                ));
                                return out;
                            }
                        }
                    }
                }
                for k in emitted.keys() {
                    if !arrival.contains_key(k) {
                        out.push(viol("C14", "foreign-key", format!("{}: result for key {} which never arrived at {:?} in iteration {}", name, k, c, it)));
                        return out;
                    }
                }
            }
        }
        if !in_loop && q_total != results.len() {
            out.push(viol("C14", "result-count", format!("{}: {} results left the operator, the sink holds {}", name, q_total, results.len())));
        }
    }
    out
}

// ------------------------------------------------------------------------------------------
// C16 order
// ------------------------------------------------------------------------------------------

pub fn c16(sc: &Scenario, rr: &RunResult) -> Vec<Violation> {
    let mut out = vec![];
    if !completed(rr) {
        return out;
    }
    // (a) sequential paths: ordered sinks must equal the reference sequence
    let reference = Interp::run(sc);
    for (sid, seq) in reference.sink_seq.iter().enumerate() {
        let Some(want) = seq else { continue };
        let (kind, _) = reference.sinks[sid];
        if !matches!(kind, SinkKind::CollectVec | SinkKind::Collect | SinkKind::CollectChannel) {
            continue;
        }
        if let Some(SinkValue::Vec(got)) = rr.rec.sinks.get(&(sid as u32, 0)) {
            if got != want {
                let first = got.iter().zip(want.iter()).position(|(a, b)| a != b).unwrap_or(got.len().min(want.len()));
                out.push(viol(
                    "C16",
                    "sequence",
                    format!("sink {} ({:?}) on a single-replica path: sequence differs from the iterator chain at position {} (got {} elements, want {})", sid, kind, first, got.len(), want.len()),
                ));
            }
        }
    }
    // (b) reorder(): between the probe before and the probe after the operator
    let prods = producers(&sc.steps);
    for (si, st) in sc.steps.iter().enumerate() {
        let Step::Un(input, UnOp::Reorder) = st else { continue };
        if *input >= prods.len() {
            continue;
        }
        let (psi, pout) = prods[*input];
        let (Some(pm), Some(qm)) = (meta_at(rr, &[psi], "out", pout), meta_at(rr, &[si], "out", 0)) else {
            continue;
        };
        for c in coords_of(rr, qm.id) {
            let evs = merged(rr, pm.id, qm.id, c);
            let mut last_out: Option<i64> = None;
            let mut cover: Option<i64> = None; // highest watermark received in this iteration
            let mut ended = false;
            let mut in_ids: Vec<u64> = vec![];
            let mut out_ids: Vec<u64> = vec![];
            for e in &evs {
                if !e.from_q {
                    match e.r.kind {
                        K_WM => cover = Some(cover.map(|x| x.max(e.r.ts)).unwrap_or(e.r.ts)),
                        K_FAR | K_TERM => ended = true,
                        K_TS => in_ids.push(e.r.id),
                        _ => {}
                    }
                } else {
                    match e.r.kind {
                        K_TS => {
                            out_ids.push(e.r.id);
                            if let Some(l) = last_out {
                                if e.r.ts < l {
                                    out.push(viol("C16", "reorder/not-sorted", format!("reorder() at {:?}: timestamp {} emitted after {}", c, e.r.ts, l)));
                                    return out;
                                }
                            }
                            last_out = Some(e.r.ts);
                            if !ended && !cover.map(|w| w >= e.r.ts).unwrap_or(false) {
                                out.push(viol(
                                    "C16",
                                    "reorder/released-early",
                                    format!("reorder() at {:?}: element with timestamp {} released while the highest watermark received is {:?} and the iteration has not ended", c, e.r.ts, cover),
                                ));
                                return out;
                            }
                        }
                        K_FAR => {
                            last_out = None;
                            cover = None;
                            ended = false;
                        }
                        _ => {}
                    }
                }
            }
            in_ids.sort();
            out_ids.sort();
            if in_ids != out_ids {
                out.push(viol("C16", "reorder/loss-or-dup", format!("reorder() at {:?}: {} timestamped elements in, {} out", c, in_ids.len(), out_ids.len())));
                return out;
            }
        }
    }
    out
}
