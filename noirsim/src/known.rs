//! Known findings: genuine defects of the code under test that are recorded rather than repaired.
//! A violation is attributed to a listed finding only if its class matches and the (minimised)
//! scenario satisfies the finding's trigger predicate; the file is never written at run time.

use serde::{Deserialize, Serialize};

use crate::plan::*;

#[derive(Clone, Debug, Serialize, Deserialize)]
pub struct Finding {
    pub id: String,
    pub property: String,
    /// prefix of the violation class
    pub class: String,
    /// name of the trigger predicate over the decoded scenario
    pub trigger: String,
    pub description: String,
    /// "known" or "fixed:<commit>"
    pub status: String,
}

#[derive(Clone, Debug, Serialize, Deserialize, Default)]
pub struct KnownFile {
    pub findings: Vec<Finding>,
}

pub fn load() -> KnownFile {
    let p = verif_root().join("known_findings.json");
    match std::fs::read_to_string(&p) {
        Ok(s) => serde_json::from_str(&s).unwrap_or_default(),
        Err(_) => KnownFile::default(),
    }
}

pub fn verif_root() -> std::path::PathBuf {
    if let Ok(p) = std::env::var("VERIF_ROOT") {
        return p.into();
    }
    // the binary lives in <root>/target/release/
    let exe = std::env::current_exe().unwrap_or_default();
    exe.parent()
        .and_then(|p| p.parent())
        .and_then(|p| p.parent())
        .map(|p| p.to_path_buf())
        .unwrap_or_else(|| ".".into())
}

fn any_step(steps: &[Step], f: &dyn Fn(&Step) -> bool) -> bool {
    steps.iter().any(|s| {
        f(s) || match s {
            Step::Loop(_, l) => any_step(&l.body, f),
            _ => false,
        }
    })
}

pub fn trigger_holds(trigger: &str, sc: &Scenario) -> bool {
    match trigger {
        "always" => true,
        "iterate_body_repartitions" => iterate_repartitions(&sc.steps),
        "loop_on_more_than_16_remote_replicas" => {
            let total: u64 = match &sc.layout {
                Layout::Remote(h) if h.len() >= 2 => h.iter().sum(),
                _ => 0,
            };
            total > 16 && any_step(&sc.steps, &|s| matches!(s, Step::Loop(..)))
        }
        "consumer_replica_without_producer" => {
            // renoir semantics: the block after replication(r) has exactly requirement r; the
            // producer's requirement is tracked along the top-level plan
            let mut repl: Vec<Repl> = vec![];
            let mut bad = false;
            for st in &sc.steps {
                match st {
                    Step::Source(i) => repl.push(match &sc.sources[*i] {
                        Src::Iter(_) | Src::Channel(_) => Repl::One,
                        Src::Scripted(_, r) => *r,
                        _ => Repl::Unlimited,
                    }),
                    Step::Un(i, op) => {
                        let from = repl.get(*i).copied().unwrap_or(Repl::Unlimited);
                        let r = match op {
                            UnOp::Repl(r) => {
                                let (ps, cs) = (from.shape(&sc.layout), r.shape(&sc.layout));
                                if cs.len() > 1 && !cs.is_subset(&ps) {
                                    bad = true;
                                }
                                *r
                            }
                            UnOp::RepartBy(r, _) => *r,
                            UnOp::Shuffle | UnOp::Gb(..) | UnOp::Broadcast | UnOp::Win(..) | UnOp::Extra(ExtraOp::KeyedChain(..)) | UnOp::Extra(ExtraOp::UniqueKeys) => Repl::Unlimited,
                            UnOp::Gl(..) | UnOp::WinAll(..) => Repl::One,
                            _ => from,
                        };
                        repl.push(r);
                    }
                    Step::Bin(a, _, op) => repl.push(match op {
                        BinOp::Zip | BinOp::IntervalJoin { keyed: false, .. } => Repl::One,
                        BinOp::Join(_, JoinForm::BcastHash) | BinOp::Join(_, JoinForm::BcastSortMerge) => repl.get(*a).copied().unwrap_or(Repl::Unlimited),
                        _ => Repl::Unlimited,
                    }),
                    Step::Split(i, n) => {
                        let r = repl.get(*i).copied().unwrap_or(Repl::Unlimited);
                        for _ in 0..*n {
                            repl.push(r);
                        }
                    }
                    Step::Route(i, p) => {
                        let r = repl.get(*i).copied().unwrap_or(Repl::Unlimited);
                        for _ in 0..p.len() {
                            repl.push(r);
                        }
                    }
                    Step::Loop(_, l) => {
                        repl.push(Repl::One);
                        if l.iterate {
                            repl.push(Repl::Unlimited);
                        }
                    }
                    Step::Sink(..) => {}
                }
            }
            bad
        }
        "forward_to_fewer_consumers" => any_step(&sc.steps, &|s| {
            matches!(s, Step::Un(_, UnOp::Repl(Repl::Limited(_))) | Step::Un(_, UnOp::Repl(Repl::Host)))
        }),
        _ => false,
    }
}

/// the known finding (status "known") this violation belongs to, if any
pub fn attribute<'a>(k: &'a KnownFile, prop: &str, class: &str, sc: Option<&Scenario>) -> Option<&'a Finding> {
    k.findings.iter().find(|f| {
        // property "*": the same defect seen through the termination clause of any property; its
        // class is then matched after the "<property>/" prefix
        let class_ok = if f.property == "*" {
            class.split_once('/').map(|(_, rest)| rest.contains(f.class.as_str())).unwrap_or(false)
        } else {
            f.property == prop && class.starts_with(&f.class)
        };
        f.status == "known" && class_ok && sc.map(|s| trigger_holds(&f.trigger, s)).unwrap_or(false)
    })
}

/// some `iterate` loop, at any nesting depth, has a block boundary inside its body
fn iterate_repartitions(steps: &[Step]) -> bool {
    steps.iter().any(|s| match s {
        Step::Loop(_, l) => {
            (l.iterate
                && l.body.iter().any(|b| {
                    matches!(
                        b,
                        Step::Un(_, UnOp::Shuffle)
                            | Step::Un(_, UnOp::Gb(..))
                            | Step::Un(_, UnOp::Gl(..))
                            | Step::Un(_, UnOp::Repl(_))
                            | Step::Un(_, UnOp::RepartBy(..))
                            | Step::Un(_, UnOp::Win(..))
                            | Step::Bin(..)
                            | Step::Loop(..)
                    )
                }))
                || iterate_repartitions(&l.body)
        }
        _ => false,
    })
}
