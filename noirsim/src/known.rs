//! Known findings: genuine defects of the code under test that are recorded rather than repaired.
//! A violation is attributed to a listed finding only if its class matches and the (minimised)
//! scenario satisfies the finding's trigger predicate; the file is never written at run time.

use serde::{Deserialize, Serialize};

use crate::plan::*;

#[derive(Clone, Debug, Serialize, Deserialize)]
pub struct Finding {
    pub id: String,
    pub property: String,
    /// prefix of the violation class
    pub class: String,
    /// name of the trigger predicate over the decoded scenario
    pub trigger: String,
    pub description: String,
    /// "known" or "fixed:<commit>"
    pub status: String,
}

#[derive(Clone, Debug, Serialize, Deserialize, Default)]
pub struct KnownFile {
    pub findings: Vec<Finding>,
}

pub fn load() -> KnownFile {
    let p = verif_root().join("known_findings.json");
    match std::fs::read_to_string(&p) {
        Ok(s) => serde_json::from_str(&s).unwrap_or_default(),
        Err(_) => KnownFile::default(),
    }
}

pub fn verif_root() -> std::path::PathBuf {
    if let Ok(p) = std::env::var("VERIF_ROOT") {
        return p.into();
    }
    // the binary lives in <root>/target/release/
    let exe = std::env::current_exe().unwrap_or_default();
    exe.parent()
        .and_then(|p| p.parent())
        .and_then(|p| p.parent())
        .map(|p| p.to_path_buf())
        .unwrap_or_else(|| ".".into())
}

fn any_step(steps: &[Step], f: &dyn Fn(&Step) -> bool) -> bool {
    steps.iter().any(|s| {
        f(s) || match s {
            Step::Loop(_, l) => any_step(&l.body, f),
            _ => false,
        }
    })
}

pub fn trigger_holds(trigger: &str, sc: &Scenario) -> bool {
    match trigger {
        "always" => true,
        "iterate_body_repartitions" => sc.steps.iter().any(|s| match s {
            Step::Loop(_, l) if l.iterate => l.body.iter().any(|b| {
                matches!(
                    b,
                    Step::Un(_, UnOp::Shuffle) | Step::Un(_, UnOp::Gb(..)) | Step::Un(_, UnOp::Gl(..)) | Step::Un(_, UnOp::Repl(_)) | Step::Un(_, UnOp::Win(..)) | Step::Bin(..)
                )
            }),
            _ => false,
        }),
        "forward_to_fewer_consumers" => any_step(&sc.steps, &|s| {
            matches!(s, Step::Un(_, UnOp::Repl(Repl::Limited(_))) | Step::Un(_, UnOp::Repl(Repl::Host)))
        }),
        _ => false,
    }
}

/// the known finding (status "known") this violation belongs to, if any
pub fn attribute<'a>(k: &'a KnownFile, prop: &str, class: &str, sc: Option<&Scenario>) -> Option<&'a Finding> {
    k.findings.iter().find(|f| {
        f.status == "known"
            && f.property == prop
            && class.starts_with(&f.class)
            && sc.map(|s| trigger_holds(&f.trigger, s)).unwrap_or(false)
    })
}
