//! Oracles: C15 sources, C18 latency, C19 execution graph, C20 fail-stop.

use std::collections::{BTreeMap, BTreeSet};

use renoir::operator::source::IntoParallelSource;
use simrt::Verdict;

use crate::gen4::RANGE_TYPES;
use crate::oracle::{c_generic, check_sinks, first_line, viol, Violation};
use crate::oracle2::producers;
use crate::plan::*;
use crate::rec::*;
use crate::refmodel::{source_elems, Interp};
use crate::run::RunResult;

fn completed(rr: &RunResult) -> bool {
    rr.outcome.verdict == Verdict::Completed && !rr.rec.hosts.iter().any(|h| h.panicked.is_some())
}

// ------------------------------------------------------------------------------------------
// C15
// ------------------------------------------------------------------------------------------

macro_rules! split_range {
    ($t:ty, $a:expr, $b:expr, $peers:expr) => {{
        let (a, b) = ($a as $t, $b as $t);
        let mut v: Vec<(i128, i128)> = vec![];
        for i in 0..$peers {
            let r = (a..b).generate_iterator(i, $peers);
            v.push((r.start as i128, r.end as i128));
        }
        v
    }};
}

pub fn check_range_case(ty: u8, a: i128, b: i128, peers: u64) -> Result<(), String> {
    let name = RANGE_TYPES[ty as usize];
    let res = std::panic::catch_unwind(|| match ty {
        0 => split_range!(u8, a, b, peers),
        1 => split_range!(u16, a, b, peers),
        2 => split_range!(u32, a, b, peers),
        3 => split_range!(u64, a, b, peers),
        4 => split_range!(usize, a, b, peers),
        5 => split_range!(i8, a, b, peers),
        6 => split_range!(i16, a, b, peers),
        7 => split_range!(i32, a, b, peers),
        8 => split_range!(i64, a, b, peers),
        _ => split_range!(isize, a, b, peers),
    });
    let parts = match res {
        Ok(p) => p,
        Err(p) => {
            return Err(format!(
                "splitting the range {}..{} of {} over {} replicas panics: {}",
                a,
                b,
                name,
                peers,
                first_line(&simrt::rt::panic_message(p.as_ref()))
            ))
        }
    };
    let nonempty: Vec<(i128, i128)> = parts.iter().cloned().filter(|(s, e)| s < e).collect();
    if a >= b {
        if !nonempty.is_empty() {
            return Err(format!("the empty or reversed range {}..{} of {} over {} replicas yields {:?}", a, b, name, peers, nonempty));
        }
        return Ok(());
    }
    let mut sorted = nonempty.clone();
    sorted.sort();
    let mut cur = a;
    for (s, e) in &sorted {
        if *s != cur {
            return Err(format!(
                "range {}..{} of {} over {} replicas: sub-ranges {:?} {} at {}",
                a,
                b,
                name,
                peers,
                sorted.iter().take(6).collect::<Vec<_>>(),
                if *s < cur { "overlap" } else { "leave a gap" },
                cur
            ));
        }
        cur = *e;
    }
    if cur != b {
        return Err(format!("range {}..{} of {} over {} replicas: the sub-ranges end at {} instead of {}", a, b, name, peers, cur, b));
    }
    Ok(())
}

pub fn c15(sc: &Scenario, rr: &RunResult) -> Vec<Violation> {
    let mut out = c_generic("C15", sc, rr);
    if !out.is_empty() {
        return out;
    }
    // non-parallel sources: everything on one replica, in order
    for (si, st) in sc.steps.iter().enumerate() {
        let Step::Source(i) = st else { continue };
        if let Src::Iter(v) = &sc.sources[*i] {
            let Some(m) = rr.meta.iter().find(|m| m.path == [si] && m.pos == "out") else { continue };
            let coords: Vec<_> = rr.rec.probes.iter().filter(|((p, _), h)| *p == m.id && h.iter().any(|r| r.kind <= K_TS)).collect();
            if coords.len() > 1 {
                out.push(viol("C15", "non-parallel-source-on-several-replicas", format!("the iterator source emitted elements on {} replicas", coords.len())));
                continue;
            }
            if let Some((_, h)) = coords.first() {
                let got: Vec<u64> = h.iter().filter(|r| r.kind <= K_TS).map(|r| r.id).collect();
                let want: Vec<u64> = source_elems(&Src::Iter(v.clone())).iter().map(|e| e.id).collect();
                if got != want {
                    out.push(viol("C15", "non-parallel-source-order", format!("the iterator source emitted {} elements, in an order different from the iterator's ({} expected)", got.len(), want.len())));
                }
            }
        }
    }
    for (ty, a, b, peers) in &sc.range_cases {
        if let Err(msg) = check_range_case(*ty, *a, *b, *peers) {
            let class = if msg.contains("panics") {
                "range-split-panics"
            } else if a >= b {
                "reversed-range-not-empty"
            } else {
                "range-split"
            };
            out.push(viol("C15", &format!("{}/{}", class, RANGE_TYPES[*ty as usize]), msg));
            break;
        }
    }
    out
}

// ------------------------------------------------------------------------------------------
// C18
// ------------------------------------------------------------------------------------------

pub fn boundaries(sc: &Scenario) -> u64 {
    let mut n = 1; // collect_channel moves to a single-replica block
    for st in &sc.steps {
        if let Step::Un(_, op) = st {
            if matches!(op, UnOp::Shuffle | UnOp::Gb(..) | UnOp::Repl(_) | UnOp::RepartBy(..) | UnOp::Broadcast | UnOp::Gl(..) | UnOp::Win(..)) {
                n += 1;
            }
        }
        if matches!(st, Step::Route(..) | Step::Split(..) | Step::Bin(..)) {
            n += 1;
        }
    }
    n
}

pub fn c18(sc: &Scenario, rr: &RunResult) -> Vec<Violation> {
    let mut out = crate::oracle::c_generic("C18", sc, rr);
    if !out.is_empty() {
        return out;
    }
    // the bound is stated for adaptive batching only
    if !matches!(sc.bm, Bm::Adaptive(..) | Bm::Default) {
        return out;
    }
    let Some(d_us) = sc.bm.max_delay_us() else { return out };
    let b = boundaries(sc);
    // "a small multiple of the configured maximum delay per block boundary": 2 x per boundary
    // (one spare for the source block), 25 % for the injected clock skew, 1 ms for scheduling
    let bound_ns = 2 * d_us * 1000 * (b + 1) * 5 / 4 + 1_000_000;
    let sent: BTreeMap<u64, i64> = rr.rec.marks.get(&(9000, (0, 0, 0))).map(|v| v.iter().map(|(id, t, _)| (*id, *t)).collect()).unwrap_or_default();
    let mut arrived: BTreeMap<u64, i64> = BTreeMap::new();
    if let Some(v) = rr.rec.marks.get(&(9001, (0, 0, 0))) {
        for (id, t, _) in v {
            arrived.entry(*id).or_insert(*t);
        }
    }
    // only operators that keep the lineage id are on the path (map Add / filter True / shuffles)
    for (id, t0) in &sent {
        match arrived.get(id) {
            Some(t1) => {
                let lat = t1 - t0;
                if lat > bound_ns as i64 {
                    out.push(viol(
                        "C18",
                        "withheld",
                        format!(
                            "element {:x} handed to the channel source at t={} ns reached the sink {} ns later; adaptive batching with max delay {} us over {} block boundaries allows {} ns",
                            id, t0, lat, d_us, b, bound_ns
                        ),
                    ));
                    break;
                }
            }
            None => {
                out.push(viol("C18", "never-arrived", format!("element {:x} never reached the sink", id)));
                break;
            }
        }
    }
    out
}

// ------------------------------------------------------------------------------------------
// C19
// ------------------------------------------------------------------------------------------

fn shape(r: Repl, l: &Layout) -> BTreeSet<(u64, u64)> {
    r.shape(l)
}

pub fn c19(sc: &Scenario, rr: &RunResult) -> Vec<Violation> {
    let mut out = vec![];
    let graphs = &rr.rec.graphs;
    if graphs.is_empty() {
        return out;
    }
    // every host derived the same graph
    let g0 = &graphs[0];
    for g in graphs.iter().skip(1) {
        let same = g.blocks == g0.blocks && g.block_edges == g0.block_edges && g.edges == g0.edges && g.addresses == g0.addresses;
        if !same {
            let what = if g.blocks != g0.blocks {
                "replicas / global ids"
            } else if g.edges != g0.edges {
                "links"
            } else if g.addresses != g0.addresses {
                "remote endpoint addresses"
            } else {
                "job graph"
            };
            out.push(viol("C19", "hosts-disagree", format!("hosts {} and {} derived different {}", g0.host, g.host, what)));
            return out;
        }
    }
    let blocks: BTreeMap<u64, &renoir::verif::BlockSnapshot> = g0.blocks.iter().map(|b| (b.id, b)).collect();
    // global ids
    for b in &g0.blocks {
        let ids: BTreeSet<u64> = b.replicas.iter().map(|(_, g)| *g).collect();
        let n = b.replicas.len() as u64;
        if ids.len() as u64 != n || ids.iter().any(|i| *i >= n) {
            out.push(viol(
                "C19",
                "global-ids",
                format!("block {}: global ids {:?} of its {} replicas are not a permutation of 0..{}", b.id, b.replicas.iter().map(|(_, g)| *g).collect::<Vec<_>>(), n, n),
            ));
            return out;
        }
    }
    // replica sets of the blocks whose replication requirement the plan determines
    let mut expect: Vec<(u32, Repl, String)> = vec![];
    for (si, st) in sc.steps.iter().enumerate() {
        let find = |pos: &str| rr.meta.iter().find(|m| m.path == [si] && m.pos == pos).map(|m| m.id);
        match st {
            Step::Source(i) => {
                let r = match &sc.sources[*i] {
                    Src::Iter(_) | Src::Channel(_) => Repl::One,
                    Src::Scripted(_, r) => *r,
                    _ => Repl::Unlimited,
                };
                if let Some(p) = find("out") {
                    expect.push((p, r, format!("source {}", i)));
                }
            }
            Step::Un(_, UnOp::Repl(r)) | Step::Un(_, UnOp::RepartBy(r, _)) => {
                if let Some(p) = find("start") {
                    expect.push((p, *r, crate::plan::step_brief(st)));
                }
            }
            Step::Un(_, UnOp::Shuffle) | Step::Un(_, UnOp::Gb(..)) | Step::Un(_, UnOp::Broadcast) => {
                if let Some(p) = find("start") {
                    expect.push((p, Repl::Unlimited, crate::plan::step_brief(st)));
                }
            }
            Step::Un(_, UnOp::Gl(..)) | Step::Bin(_, _, BinOp::Zip) => {
                if let Some(p) = find("out") {
                    expect.push((p, Repl::One, crate::plan::step_brief(st)));
                }
            }
            _ => {}
        }
    }
    for (pid, r, what) in expect {
        let Some(((_, c), _)) = rr.rec.probes.iter().find(|((p, _), _)| *p == pid) else { continue };
        let Some(b) = blocks.get(&c.0) else { continue };
        let got: BTreeSet<(u64, u64)> = b.replicas.iter().map(|(c, _)| (c.1, c.2)).collect();
        let want = shape(r, &sc.layout);
        if got != want {
            out.push(viol(
                "C19",
                "replica-set",
                format!("block {} ({}, requirement {:?}) on layout {:?}: replicas (host, index) are {:?}, expected {:?}", b.id, what, r, sc.layout, got, want),
            ));
            return out;
        }
    }
    // links
    let mut out_edges: BTreeMap<(CoordT, u64), Vec<CoordT>> = BTreeMap::new();
    for (f, t, _) in &g0.edges {
        out_edges.entry((*f, t.0)).or_default().push(*t);
    }
    for (fb, tb, fragile) in &g0.block_edges {
        let (Some(from), Some(to)) = (blocks.get(fb), blocks.get(tb)) else { continue };
        for (fc, _) in &from.replicas {
            let tos = out_edges.get(&(*fc, *tb)).cloned().unwrap_or_default();
            if from.only_one || *fragile {
                if to.replicas.is_empty() {
                    continue;
                }
                if tos.len() != 1 {
                    out.push(viol(
                        "C19",
                        "forward-edge",
                        format!("forward link block {} -> block {}: producer replica {:?} has {} consumers {:?} (exactly one expected; the consumer block has {} replicas)", fb, tb, fc, tos.len(), tos, to.replicas.len()),
                    ));
                    return out;
                }
                let same_exists = to.replicas.iter().any(|(c, _)| (c.1, c.2) == (fc.1, fc.2));
                if same_exists && (tos[0].1, tos[0].2) != (fc.1, fc.2) {
                    out.push(viol("C19", "forward-edge", format!("forward link block {} -> block {}: producer {:?} is linked to {:?} although the same-index consumer exists", fb, tb, fc, tos[0])));
                    return out;
                }
            } else {
                let want: BTreeSet<CoordT> = to.replicas.iter().map(|(c, _)| *c).collect();
                let got: BTreeSet<CoordT> = tos.iter().cloned().collect();
                if want != got {
                    out.push(viol("C19", "all-to-all-edge", format!("link block {} -> block {}: producer {:?} is linked to {} of the {} consumer replicas", fb, tb, fc, got.len(), want.len())));
                    return out;
                }
            }
        }
    }
    // addresses collision-free per host
    let mut seen: BTreeSet<(String, u16)> = BTreeSet::new();
    for (_, a, p) in &g0.addresses {
        if !seen.insert((a.clone(), *p)) {
            out.push(viol("C19", "address-collision", format!("two remote endpoints share the address {}:{}", a, p)));
            return out;
        }
    }
    // and the derived graph is the one actually wired: the job runs to completion
    out.extend(crate::oracle::c_generic("C19", sc, rr));
    out
}

// ------------------------------------------------------------------------------------------
// C20
// ------------------------------------------------------------------------------------------

/// streams (top-level SSA ids) downstream of step `si` (inclusive of its outputs)
fn downstream_streams(steps: &[Step], si: usize, out: Option<usize>) -> BTreeSet<usize> {
    let prods = producers(steps);
    let mut tainted: BTreeSet<usize> = prods
        .iter()
        .enumerate()
        .filter(|(_, (s, k))| *s == si && out.map(|o| o == *k).unwrap_or(true))
        .map(|(i, _)| i)
        .collect();
    // a failure inside a step's producing block also kills what that block feeds: the step's own
    // inputs' consumers are this step only (every stream has one consumer), so the closure suffices
    let mut changed = true;
    while changed {
        changed = false;
        let mut next_id = 0usize;
        for st in steps {
            let (ins, nout): (Vec<usize>, usize) = match st {
                Step::Source(_) => (vec![], 1),
                Step::Un(i, _) => (vec![*i], 1),
                Step::Bin(a, b, _) => (vec![*a, *b], 1),
                Step::Split(i, n) => (vec![*i], *n),
                Step::Route(i, p) => (vec![*i], p.len()),
                Step::Loop(i, l) => (vec![*i], if l.iterate { 2 } else { 1 }),
                Step::Sink(_, _) => (vec![], 0),
            };
            if ins.iter().any(|i| tainted.contains(i)) {
                for k in 0..nout {
                    if tainted.insert(next_id + k) {
                        changed = true;
                    }
                }
            }
            next_id += nout;
        }
    }
    tainted
}

pub fn c20(sc: &Scenario, rr: &RunResult) -> Vec<Violation> {
    let mut out = vec![];
    let Some((pid, coord, nth)) = rr.rec.crash_site else {
        // the chosen site was never reached: an ordinary run (a streaming job received elements
        // the plan does not list: only its termination is checked)
        if sc.stream_until_failure {
            return crate::oracle::termination_as("C20", sc, rr).into_iter().filter(|v| v.class != "C20/__inconclusive").collect();
        }
        return c_generic("C20", sc, rr);
    };
    let where_ = rr.meta.iter().find(|m| m.id == pid).map(|m| format!("probe {} (step {:?}, {})", pid, m.path, m.pos)).unwrap_or_default();
    let site = format!("user function panicked at {} on replica {:?} at its element #{}", where_, coord, nth);
    // a streaming job: the failure must be reported while the input keeps flowing, not only once
    // the stream is closed
    if let Some(n) = rr.rec.stream_gave_up {
        out.push(viol(
            "C20",
            "failure-not-reported-while-streaming",
            format!("{}: {} further elements were fed to the source over {} ms afterwards and no host's execute_blocking failed; the failure surfaced only after the input was closed", site, n, n * 2),
        ));
        return out;
    }
    // all other workers unwind instead of blocking forever
    match rr.outcome.verdict {
        Verdict::Completed => {}
        Verdict::Deadlock => {
            out.push(viol("C20", "hang-after-panic", format!("{}: the job never terminates afterwards:\n{}", site, rr.outcome.deadlock_report())));
            return out;
        }
        _ if rr.outcome.progress_since_last_window => return out,
        _ => {
            out.push(viol("C20", "no-termination-after-panic", format!("{}: the job did not terminate within the budget ({} steps)", site, rr.outcome.steps)));
            return out;
        }
    }
    // execute_blocking fails on the host of the failed replica and on every host that runs
    // something downstream of it
    let panicked: BTreeSet<u64> = rr.rec.hosts.iter().filter(|h| h.panicked.is_some()).map(|h| h.host).collect();
    let mut must_fail: BTreeSet<u64> = BTreeSet::new();
    must_fail.insert(coord.1);
    if let Some(g0) = rr.rec.graphs.first() {
        let mut reach: BTreeSet<u64> = BTreeSet::new();
        reach.insert(coord.0);
        let mut changed = true;
        while changed {
            changed = false;
            for (f, t, _) in &g0.block_edges {
                if reach.contains(f) && reach.insert(*t) {
                    changed = true;
                }
            }
        }
        // only replicas that are actually fed (directly or not) by the failed replica count as
        // downstream; being conservative (never demanding more than the property): use the
        // execution graph edges from the failed coord
        let mut creach: BTreeSet<CoordT> = BTreeSet::new();
        creach.insert(coord);
        let mut changed = true;
        while changed {
            changed = false;
            for (f, t, _) in &g0.edges {
                if creach.contains(f) && creach.insert(*t) {
                    changed = true;
                }
            }
        }
        for c in &creach {
            must_fail.insert(c.1);
        }
    }
    for h in &must_fail {
        if !panicked.contains(h) {
            out.push(viol(
                "C20",
                "failure-masked",
                format!("{}: execute_blocking returned normally on host {} although it runs the failed replica or something downstream of it", site, h),
            ));
            return out;
        }
    }
    // no sink downstream of the failure publishes anything
    let Some(m) = rr.meta.iter().find(|m| m.id == pid) else { return out };
    let si = m.path[0];
    // probes placed before a step's repartition live in the block that produces the step's
    // input: the failure then also reaches everything fed by that block, i.e. this very step
    // split / route branches live in separate blocks: only the failed branch is downstream
    let branch = match &sc.steps[si] {
        Step::Split(..) | Step::Route(..) => Some(m.out),
        _ => None,
    };
    let tainted = downstream_streams(&sc.steps, si, branch);
    let reference = Interp::run(sc);
    let mut sid = 0u32;
    for st in &sc.steps {
        let Step::Sink(i, kind) = st else { continue };
        let handle_sink = matches!(kind, SinkKind::CollectVec | SinkKind::Collect | SinkKind::CollectCount | SinkKind::CollectVecAll | SinkKind::CollectAll);
        let downstream = tainted.contains(i) || matches!(&sc.steps[si], Step::Sink(..));
        for h in 0..sc.layout.hosts() as u64 {
            let v = rr.rec.sinks.get(&(sid, h)).cloned().unwrap_or(SinkValue::None);
            let has = !matches!(v, SinkValue::None);
            if handle_sink && downstream && has {
                out.push(viol(
                    "C20",
                    "partial-result-published",
                    format!("{}: sink {} ({:?}) downstream of the failure still yields a result on host {}", site, sid, kind, h),
                ));
                return out;
            }
        }
        sid += 1;
    }
    if sc.stream_until_failure {
        // the extra elements of a streaming job are not part of the plan: no reference result
        return out;
    }
    // sinks on other branches: nothing, or the complete and correct result
    let mut partial = reference;
    let mut sid = 0usize;
    let mut keep = vec![];
    for st in &sc.steps {
        if let Step::Sink(i, kind) = st {
            let handle_sink = matches!(kind, SinkKind::CollectVec | SinkKind::Collect | SinkKind::CollectCount | SinkKind::CollectVecAll | SinkKind::CollectAll);
            let present = (0..sc.layout.hosts() as u64).any(|h| !matches!(rr.rec.sinks.get(&(sid as u32, h)), Some(SinkValue::None) | None));
            keep.push(handle_sink && !tainted.contains(i) && present);
            sid += 1;
        }
    }
    for (k, s) in partial.sinks.iter_mut().enumerate() {
        if !keep.get(k).copied().unwrap_or(false) {
            s.1 = crate::refmodel::RefSink::Weak { len: None };
        }
    }
    // evaluate only the kept sinks; `check_sinks` reports missing values for weak sinks, skip those
    for v in check_sinks("C20", sc, rr, &partial, false) {
        if v.class.contains("sink-missing") {
            continue;
        }
        out.push(viol("C20", "wrong-result-on-unaffected-branch", format!("{}: {}", site, v.msg)));
        break;
    }
    let _ = completed(rr);
    out
}
