//! Builds the renoir job described by a `Scenario` on one host's `StreamContext`, inserting
//! transparent probes after every step.

use std::sync::{Arc, Mutex};

use renoir::operator::sink::StreamOutput;
use renoir::operator::source::{ChannelSource, CsvSource, FileSource, IteratorSource};
use renoir::operator::{Operator, StreamElement};
use renoir::structure::BlockStructure;
use renoir::{ExecutionMetadata, IterationStateHandle, StreamContext};
use serde::{Deserialize, Serialize};

use crate::dynop::*;
use crate::elem::*;
use crate::plan::*;
use crate::probe::{Lin, Probe, ScriptedSource};
use crate::rec::{self, CoordT, SinkValue, StateObs};

#[derive(Clone, Debug, Serialize, Deserialize)]
pub struct ProbeMeta {
    pub id: u32,
    /// path of step indices (nested for loop bodies)
    pub path: Vec<usize>,
    /// which output stream of the step (split/route/iterate produce several)
    pub out: usize,
    /// position inside a macro step: "out" (after the whole step), "start" (right after the
    /// repartition), "pre" (before the step's own repartition: last probe of the producing block) ...
    pub pos: String,
}

pub enum SinkHandle {
    Vec(StreamOutput<Vec<E>>),
    Count(StreamOutput<usize>),
    Chan(flume::Receiver<E>),
    ForEach(Arc<Mutex<Vec<E>>>),
}

pub type LoopState = (u64, i64);
pub type LoopDelta = (u8, i64);

pub const ROUTE_FNS: [fn(&E) -> bool; 6] = [
    |e| e.v.rem_euclid(4) == 0,
    |e| e.v.rem_euclid(3) == 0,
    |e| e.key % 2 == 0,
    |e| e.v < 0,
    |_| true,
    |_| false,
];

pub fn route_pred(p: &PredFn) -> usize {
    match p {
        PredFn::VMod(4, _) => 0,
        PredFn::VMod(3, _) => 1,
        PredFn::KeyLt(_) => 2,
        PredFn::IdBit(_) => 3,
        PredFn::True => 4,
        _ => 5,
    }
}

pub struct Builder<'a> {
    pub env: &'a StreamContext,
    pub sc: &'a Scenario,
    pub host: u64,
    pub np: u32,
    pub meta: Vec<ProbeMeta>,
    pub sinks: Vec<(u32, SinkKind, SinkHandle)>,
    pub nloops: u32,
    pub nsites: u32,
    pub clients: Vec<Box<dyn FnOnce() + Send>>,
    pub tmpdir: std::path::PathBuf,
    /// state handles (and loop paths) of the enclosing loops whose bodies read their state
    pub state_stack: Vec<(IterationStateHandle<LoopState>, Vec<usize>)>,
}

/// stamps every data element with the iteration index of this replica (number of
/// FlushAndRestart markers it has forwarded so far) in `E.ts`
#[derive(Clone)]
pub struct RoundStamp<O> {
    prev: O,
    round: i64,
}

impl<O: std::fmt::Display> std::fmt::Display for RoundStamp<O> {
    fn fmt(&self, f: &mut std::fmt::Formatter<'_>) -> std::fmt::Result {
        write!(f, "{} -> RoundStamp", self.prev)
    }
}

impl<O: Operator<Out = E>> Operator for RoundStamp<O> {
    type Out = E;
    fn setup(&mut self, m: &mut ExecutionMetadata) {
        self.prev.setup(m);
    }
    fn next(&mut self) -> StreamElement<E> {
        match self.prev.next() {
            StreamElement::Item(mut e) => {
                e.ts = self.round;
                StreamElement::Item(e)
            }
            StreamElement::FlushAndRestart => {
                self.round += 1;
                StreamElement::FlushAndRestart
            }
            StreamElement::Terminate => {
                self.round = 0;
                StreamElement::Terminate
            }
            x => x,
        }
    }
    fn structure(&self) -> BlockStructure {
        self.prev.structure()
    }
}

/// reads the loop state for every element and records (true round, seen state)
#[derive(Clone)]
pub struct StateReader<O> {
    prev: O,
    state: IterationStateHandle<LoopState>,
    loop_id: u32,
    loop_path: Vec<usize>,
    /// set when this reader sits in the body of a loop nested inside `loop_path`'s loop: its round
    /// counter then counts the rounds of that inner loop (over all outer rounds)
    inner_path: Option<Vec<usize>>,
    site: u32,
    coord: CoordT,
    fold_in: bool,
    /// number of FlushAndRestart markers forwarded so far = index of the round whose elements
    /// come next at this point of this replica
    round: u64,
}

impl<O: std::fmt::Display> std::fmt::Display for StateReader<O> {
    fn fmt(&self, f: &mut std::fmt::Formatter<'_>) -> std::fmt::Result {
        write!(f, "{} -> StateReader", self.prev)
    }
}

impl<O: Operator<Out = E>> Operator for StateReader<O> {
    type Out = E;
    fn setup(&mut self, m: &mut ExecutionMetadata) {
        self.prev.setup(m);
        self.coord = (m.coord.block_id, m.coord.host_id, m.coord.replica_id);
    }
    fn next(&mut self) -> StreamElement<E> {
        match self.prev.next() {
            StreamElement::Item(mut e) => {
                // an interleaving point between receiving the element and reading the state
                simrt::yield_now();
                let st = *self.state.get();
                if self.inner_path.is_some() {
                    simrt::rt::count("outer_state_read_in_nested_body");
                } else {
                    simrt::rt::count("state_read_in_body");
                }
                let obs = StateObs {
                    loop_id: self.loop_id,
                    loop_path: self.loop_path.clone(),
                    inner_path: self.inner_path.clone(),
                    coord: self.coord,
                    true_round: self.round,
                    seen_round: st.0,
                    seen_acc: st.1,
                    site: self.site,
                };
                rec::with(|r| r.state_obs.push(obs));
                if self.fold_in {
                    e.v = e.v.wrapping_add(st.1.rem_euclid(7));
                }
                StreamElement::Item(e)
            }
            StreamElement::FlushAndRestart => {
                self.round += 1;
                StreamElement::FlushAndRestart
            }
            x => x,
        }
    }
    fn structure(&self) -> BlockStructure {
        self.prev.structure()
    }
}

pub fn agg_e(key: u16, v: i64, ts: i64) -> E {
    E {
        id: mix(TAG_AGG, key as u64),
        key,
        v,
        ts,
        pad: Vec::new(),
    }
}

pub fn join_e(key: u16, l: Option<&E>, r: Option<&E>) -> E {
    let lid = l.map(|e| e.id).unwrap_or(0x11);
    let rid = r.map(|e| e.id).unwrap_or(0x22);
    let lv = l.map(|e| e.v).unwrap_or(-1);
    let rv = r.map(|e| e.v).unwrap_or(-2);
    E {
        id: mix(mix(TAG_JOIN, lid), rid),
        key,
        v: lv.wrapping_mul(31).wrapping_add(rv),
        ts: l.map(|e| e.ts).unwrap_or(0).max(r.map(|e| e.ts).unwrap_or(0)),
        pad: Vec::new(),
    }
}

/// zip result: keeps both lineage ids visible (id = left id, v = right id)
pub fn zip_e(a: &E, b: &E) -> E {
    E {
        id: a.id,
        key: a.key,
        v: b.id as i64,
        ts: a.ts.max(b.ts),
        pad: Vec::new(),
    }
}

pub fn memo_e(key: u16) -> E {
    E {
        id: mix(0x3E30, key as u64),
        key,
        v: key as i64 * 3 + 1,
        ts: 0,
        pad: Vec::new(),
    }
}

pub fn unique_e(key: u16) -> E {
    E {
        id: mix(0x0191, key as u64),
        key,
        v: 0,
        ts: 0,
        pad: Vec::new(),
    }
}

pub fn line_e(line: &str) -> E {
    let mut h = 0xcbf2_9ce4_8422_2325u64;
    for b in line.bytes() {
        h ^= b as u64;
        h = h.wrapping_mul(0x0000_0100_0000_01B3);
    }
    E {
        id: h,
        key: (line.len() % 7) as u16,
        v: line.len() as i64,
        ts: 0,
        pad: Vec::new(),
    }
}

impl<'a> Builder<'a> {
    pub fn new(env: &'a StreamContext, sc: &'a Scenario, host: u64, tmpdir: std::path::PathBuf) -> Self {
        Builder {
            env,
            sc,
            host,
            np: 0,
            meta: vec![],
            sinks: vec![],
            nloops: 0,
            nsites: 0,
            clients: vec![],
            tmpdir,
            state_stack: vec![],
        }
    }

    fn probe<T: Lin + Send + 'static>(&mut self, s: DS<T>, path: &[usize], out: usize, pos: &str) -> DS<T> {
        let id = self.np;
        self.np += 1;
        self.meta.push(ProbeMeta {
            id,
            path: path.to_vec(),
            out,
            pos: pos.to_string(),
        });
        boxed(s.add_operator(|p| Probe::new(p, id)))
    }

    pub fn probe_pub<T: Lin + Send + 'static>(&mut self, s: DS<T>, path: &[usize], out: usize, pos: &str) -> DS<T> {
        self.probe(s, path, out, pos)
    }

    pub fn build(&mut self) {
        let steps = self.sc.steps.clone();
        let mut streams: Vec<Option<DS<E>>> = Vec::new();
        self.build_steps(&steps, &mut streams, &mut Vec::new(), &[]);
        // every stream must have been consumed
        for (i, s) in streams.iter().enumerate() {
            assert!(s.is_none(), "plan leaves stream {} without a sink", i);
        }
    }

    fn take(streams: &mut [Option<DS<E>>], outer: &mut Vec<Option<DS<E>>>, i: usize) -> DS<E> {
        if i >= SIDE_BASE {
            outer[i - SIDE_BASE].take().expect("side input already consumed")
        } else {
            streams[i].take().expect("stream already consumed")
        }
    }

    fn build_steps(
        &mut self,
        steps: &[Step],
        streams: &mut Vec<Option<DS<E>>>,
        outer: &mut Vec<Option<DS<E>>>,
        prefix: &[usize],
    ) {
        for (si, st) in steps.iter().enumerate() {
            let mut path = prefix.to_vec();
            path.push(si);
            match st {
                Step::Source(i) => {
                    let s = self.source(*i);
                    let s = self.probe(s, &path, 0, "out");
                    streams.push(Some(s));
                }
                Step::Un(i, op) => {
                    let s = Self::take(streams, outer, *i);
                    let s = self.unary(s, op, &path);
                    let s = self.probe(s, &path, 0, "out");
                    streams.push(Some(s));
                }
                Step::Bin(a, b, op) => {
                    let l = Self::take(streams, outer, *a);
                    let r = Self::take(streams, outer, *b);
                    let s = self.binary(l, r, op, &path);
                    let s = self.probe(s, &path, 0, "out");
                    streams.push(Some(s));
                }
                Step::Split(i, n) => {
                    let s = Self::take(streams, outer, *i);
                    for (k, b) in s.split(*n).into_iter().enumerate() {
                        let b = self.probe(boxed(b), &path, k, "out");
                        streams.push(Some(b));
                    }
                }
                Step::Route(i, preds) => {
                    let s = Self::take(streams, outer, *i);
                    let mut rb = s.route();
                    for p in preds {
                        rb = rb.add_route(ROUTE_FNS[route_pred(p)]);
                    }
                    for (k, b) in rb.build().into_iter().enumerate() {
                        let b = self.probe(boxed(b), &path, k, "out");
                        streams.push(Some(b));
                    }
                }
                Step::Loop(i, spec) => {
                    let s = Self::take(streams, outer, *i);
                    let outs = self.build_loop(s, spec, streams, &path);
                    for (k, o) in outs.into_iter().enumerate() {
                        let o = self.probe(o, &path, k, "out");
                        streams.push(Some(o));
                    }
                }
                Step::Sink(i, kind) => {
                    let s = Self::take(streams, outer, *i);
                    self.sink(s, *kind);
                    // keep SSA numbering dense: sinks create no stream
                }
            }
        }
    }

    fn source(&mut self, i: usize) -> DS<E> {
        // the scenario's default batch mode applies from every source on (later `Batch` steps
        // override it; blocks created downstream inherit it)
        let bm = self.sc.bm;
        let s = self.source_inner(i);
        match bm {
            Bm::Default => s,
            bm => s.batch_mode(bm.to_renoir()),
        }
    }

    fn source_inner(&mut self, i: usize) -> DS<E> {
        match &self.sc.sources[i] {
            Src::Iter(v) => boxed(self.env.stream(IteratorSource::new(v.clone().into_iter()))),
            Src::ParIter(v) => {
                let v = Arc::new(v.clone());
                boxed(self.env.stream_par_iter(move |id: u64, n: u64| {
                    let len = v.len() as u64;
                    let chunk = (len + n - 1) / n.max(1);
                    let a = (id * chunk).min(len) as usize;
                    let b = ((id + 1) * chunk).min(len) as usize;
                    let v = v.clone();
                    (a..b).map(move |k| v[k].clone())
                }))
            }
            Src::Scripted(scripts, repl) => {
                boxed(self.env.stream(ScriptedSource::new(scripts.clone(), repl.to_renoir())))
            }
            Src::Channel(bursts) => {
                let (tx, src) = ChannelSource::<E>::new(4);
                let bursts = bursts.clone();
                let grace_us = self.sc.client_grace_us;
                let until_failure = self.sc.stream_until_failure;
                if self.host == 0 {
                    self.clients.push(Box::new(move || {
                        let mut last = None;
                        for (pause_us, burst) in bursts {
                            if pause_us > 0 {
                                simrt::rt::sleep_local(pause_us * 1000);
                            }
                            for e in burst {
                                let id = e.id;
                                let t0 = simrt::rt::now_ns();
                                rec::with(|r| {
                                    r.marks.entry((9000, (0, 0, 0))).or_default().push((id, t0 as i64, 0))
                                });
                                last = Some(e.clone());
                                if tx.send(e).is_err() {
                                    return;
                                }
                            }
                        }
                        if until_failure {
                            // an endless stream, as far as the job can tell: one more element every
                            // 2 ms until a host reports the failure. 300 elements (0.6 s) after
                            // the injected panic without any report: give up and say so
                            let mut template = last.unwrap_or_else(|| E::new(1, 0, 1));
                            let mut after_crash = 0u64;
                            for k in 0..2000u64 {
                                let (failed, fired) = rec::with(|r| (r.exec_done.iter().any(|d| d.1), r.crash_fired));
                                if failed {
                                    break;
                                }
                                if fired {
                                    after_crash += 1;
                                    if after_crash > 300 {
                                        rec::with(|r| r.stream_gave_up = Some(after_crash));
                                        break;
                                    }
                                } else if k > 600 {
                                    // the site is never reached on this schedule
                                    break;
                                }
                                template.id = crate::elem::mix(0x57EA, k);
                                template.key = (k % 7) as u16;
                                simrt::rt::sleep_local(2_000_000);
                                if tx.send(template.clone()).is_err() {
                                    return;
                                }
                            }
                        }
                        if grace_us > 0 {
                            simrt::rt::sleep_local(grace_us * 1000);
                        }
                        drop(tx);
                    }));
                } else {
                    drop(tx);
                }
                boxed(self.env.stream(src))
            }
            Src::File(content) => {
                let p = self.tmpdir.join(format!("src{}.txt", i));
                if !p.exists() {
                    std::fs::write(&p, content).unwrap();
                }
                boxed(self.env.stream(FileSource::new(p)).map(|l| line_e(&l)))
            }
            Src::Csv(content, headers) => {
                let p = self.tmpdir.join(format!("src{}.csv", i));
                if !p.exists() {
                    std::fs::write(&p, content).unwrap();
                }
                let src = CsvSource::<(String, String)>::new(p).has_headers(*headers);
                boxed(self.env.stream(src).map(|(a, b)| line_e(&format!("{},{}", a, b))))
            }
            Src::Range(a, b) => boxed(
                self.env
                    .stream_par_iter(*a..*b)
                    .map(|x| E::new(mix(0x5EED, x), (x % 5) as u16, x as i64)),
            ),
        }
    }

    fn unary(&mut self, s: DS<E>, op: &UnOp, path: &[usize]) -> DS<E> {
        match op.clone() {
            UnOp::Extra(x) => match x {
                ExtraOp::FilterMap(p, f) => boxed(s.filter_map(move |e| if p.test(&e) { Some(f.apply(e)) } else { None })),
                ExtraOp::Flatten(f) => boxed(s.map(move |e| f.apply(e)).flatten()),
                ExtraOp::RichFlatMap(f) => boxed(s.rich_flat_map(move |e| f.apply(e))),
                ExtraOp::RichFilterMap(p) => boxed(s.rich_filter_map(move |e| if p.test(&e) { Some(e) } else { None })),
                ExtraOp::MemoKey => boxed(s.map_memo_by(|e: E| memo_e(e.key), |e: &E| e.key, 64)),
                ExtraOp::UniqueKeys => boxed(s.map(|e| unique_e(e.key)).unique_assoc()),
                ExtraOp::Inspect => boxed(s.inspect(|_e| {})),
                ExtraOp::KeyedChain(p, f) => {
                    let s = self.probe(s, path, 0, "pre");
                    let k = boxed_keyed(s.group_by(|e| e.key));
                    let k = KeyedStreamProbe::probe(self, k, path, "start");
                    boxed(
                        k.filter(move |(_, e)| p.test(e))
                            .flat_map(move |(_, e)| f.apply(e))
                            .rich_filter_map(|(_, e): (&u16, E)| Some(e))
                            .inspect(|_| {})
                            .drop_key(),
                    )
                }
            },
            UnOp::Map(f) => boxed(s.map(move |e| f.apply(e))),
            UnOp::Filter(p) => boxed(s.filter(move |e| p.test(e))),
            UnOp::FlatMap(f) => boxed(s.flat_map(move |e| f.apply(e))),
            UnOp::Shuffle => {
                let s = self.probe(s, path, 0, "pre");
                let s = boxed(s.shuffle());
                self.probe(s, path, 0, "start")
            }
            UnOp::Repl(r) => {
                let s = self.probe(s, path, 0, "pre");
                let s = boxed(s.replication(r.to_renoir()));
                self.probe(s, path, 0, "start")
            }
            UnOp::RepartBy(r, m) => {
                let s = self.probe(s, path, 0, "pre");
                let m = m.max(1);
                let s = boxed(s.repartition_by(r.to_renoir(), move |e: &E| (e.key % m) as u64));
                self.probe(s, path, 0, "start")
            }
            UnOp::Batch(bm) => s.batch_mode(bm.to_renoir()),
            UnOp::Broadcast => {
                let s = self.probe(s, path, 0, "pre");
                let s = boxed(s.broadcast());
                self.probe(s, path, 0, "start")
            }
            UnOp::KeyByDrop => boxed(s.key_by(|e| e.key).drop_key()),
            UnOp::Gb(form, agg) => self.group_by(s, form, agg, path),
            UnOp::Gl(form, agg) => self.global(s, form, agg, path),
            UnOp::Reorder => boxed(s.reorder()),
            UnOp::AddTs { every, lag } => {
                let mut n = 0u32;
                boxed(
                    s.add_timestamps(
                        |e| e.ts,
                        move |e, ts| {
                            n += 1;
                            let _ = e;
                            if every > 0 && n % every == 0 {
                                Some(*ts - lag)
                            } else {
                                None
                            }
                        },
                    ),
                )
            }
            UnOp::DropTs => boxed(s.drop_timestamps()),
            UnOp::Win(kind, agg) => crate::win::build_window(self, s, kind, agg, path, false),
            UnOp::WinAll(kind, agg) => crate::win::build_window(self, s, kind, agg, path, true),
        }
    }

    fn group_by(&mut self, s: DS<E>, form: GbForm, agg: AggFn, path: &[usize]) -> DS<E> {
        let s = self.probe(s, path, 0, "pre");
        match form {
            GbForm::Fold => {
                let k = boxed_keyed(s.group_by(|e| e.key));
                let k = KeyedStreamProbe::probe(self, k, path, "start");
                boxed(
                    k.fold((agg.unit(), i64::MIN), move |acc: &mut (i64, i64), e: E| {
                        acc.0 = agg.step(acc.0, e.v);
                        acc.1 = acc.1.max(e.ts);
                    })
                    .unkey()
                    .map(|(k, (v, ts))| agg_e(k, v, ts)),
                )
            }
            GbForm::Reduce => {
                let k = boxed_keyed(s.group_by(|e| e.key));
                let k = KeyedStreamProbe::probe(self, k, path, "start");
                boxed(
                    k.reduce(move |a: &mut E, b: E| *a = agg.combine(a, &b))
                        .unkey()
                        .map(|(k, e)| E { key: k, pad: vec![], ..e }),
                )
            }
            GbForm::FoldAssoc => boxed(
                s.group_by_fold(
                    |e| e.key,
                    (agg.unit(), i64::MIN),
                    move |acc: &mut (i64, i64), e: E| {
                        acc.0 = agg.step(acc.0, e.v);
                        acc.1 = acc.1.max(e.ts);
                    },
                    move |acc: &mut (i64, i64), o: (i64, i64)| {
                        acc.0 = agg.merge(acc.0, o.0);
                        acc.1 = acc.1.max(o.1);
                    },
                )
                .unkey()
                .map(|(k, (v, ts))| agg_e(k, v, ts)),
            ),
            GbForm::ReduceAssoc => boxed(
                s.group_by_reduce(|e| e.key, move |a: &mut E, b: E| *a = agg.combine(a, &b))
                    .unkey()
                    .map(|(k, e)| E { key: k, pad: vec![], ..e }),
            ),
            GbForm::Sum => boxed(
                s.group_by_sum(|e| e.key, |e| std::num::Wrapping(e.v))
                    .unkey()
                    .map(|(k, v)| agg_e(k, v.0, 0)),
            ),
            GbForm::Count => boxed(
                s.group_by_count(|e| e.key)
                    .unkey()
                    .map(|(k, v)| agg_e(k, v as i64, 0)),
            ),
            GbForm::Avg => boxed(
                s.group_by_avg(|e| e.key, |e| e.v.rem_euclid(1000) as f64)
                    .unkey()
                    .map(|(k, v)| agg_e(k, (v * 1024.0).round() as i64, 0)),
            ),
            GbForm::MinEl => boxed(
                s.group_by_min_element(|e| e.key, |e| (e.v, e.id, e.ts))
                    .unkey()
                    .map(|(k, e)| E { key: k, ..e }),
            ),
            GbForm::MaxEl => boxed(
                s.group_by_max_element(|e| e.key, |e| (e.v, e.id, e.ts))
                    .unkey()
                    .map(|(k, e)| E { key: k, ..e }),
            ),
            GbForm::RichCounter => {
                let k = boxed_keyed(s.group_by(|e| e.key));
                let k = KeyedStreamProbe::probe(self, k, path, "start");
                boxed(
                    k.rich_map({
                        let mut n = 0i64;
                        move |(_k, _e): (&u16, E)| {
                            n += 1;
                            n
                        }
                    })
                    .unkey()
                    .map(|(k, n)| E {
                        id: mix(mix(TAG_AGG, k as u64), n as u64),
                        key: k,
                        v: n,
                        ts: 0,
                        pad: vec![],
                    }),
                )
            }
            GbForm::KeyedMap => {
                let k = boxed_keyed(s.group_by(|e| e.key));
                let k = KeyedStreamProbe::probe(self, k, path, "start");
                boxed(k.map(|(k, e): (&u16, E)| E { v: e.v.wrapping_add(*k as i64), ..e }).drop_key())
            }
        }
    }

    fn global(&mut self, s: DS<E>, form: GlForm, agg: AggFn, path: &[usize]) -> DS<E> {
        let s = self.probe(s, path, 0, "pre");
        let to_e = |(v, ts): (i64, i64)| agg_e(0xFFFF, v, ts);
        match form {
            GlForm::Fold => boxed(
                s.fold((agg.unit(), i64::MIN), move |acc: &mut (i64, i64), e: E| {
                    acc.0 = agg.step(acc.0, e.v);
                    acc.1 = acc.1.max(e.ts);
                })
                .map(to_e),
            ),
            GlForm::FoldAssoc => boxed(
                s.fold_assoc(
                    (agg.unit(), i64::MIN),
                    move |acc: &mut (i64, i64), e: E| {
                        acc.0 = agg.step(acc.0, e.v);
                        acc.1 = acc.1.max(e.ts);
                    },
                    move |acc: &mut (i64, i64), o: (i64, i64)| {
                        acc.0 = agg.merge(acc.0, o.0);
                        acc.1 = acc.1.max(o.1);
                    },
                )
                .map(to_e),
            ),
            GlForm::Reduce => boxed(
                s.reduce(move |a: E, b: E| agg.combine(&a, &b))
                    .map(|e| E { key: 0xFFFF, pad: vec![], ..e }),
            ),
            GlForm::ReduceAssoc => boxed(
                s.reduce_assoc(move |a: E, b: E| agg.combine(&a, &b))
                    .map(|e| E { key: 0xFFFF, pad: vec![], ..e }),
            ),
        }
    }

    fn binary(&mut self, l: DS<E>, r: DS<E>, op: &BinOp, path: &[usize]) -> DS<E> {
        let l = self.probe(l, path, 0, "preL");
        let r = self.probe(r, path, 1, "preR");
        match op.clone() {
            BinOp::Merge => {
                let s = boxed(l.merge(r));
                self.probe(s, path, 0, "start")
            }
            BinOp::Zip => {
                let s = boxed(l.zip(r).map(|(a, b)| zip_e(&a, &b)));
                self.probe(s, path, 0, "start")
            }
            BinOp::Join(kind, form) => self.join(l, r, kind, form),
            BinOp::KeyedJoinAssoc(agg) => {
                let lk = l.group_by_fold(
                    |e| e.key,
                    (agg.unit(), i64::MIN),
                    move |acc: &mut (i64, i64), e: E| {
                        acc.0 = agg.step(acc.0, e.v);
                        acc.1 = acc.1.max(e.ts);
                    },
                    move |acc: &mut (i64, i64), o: (i64, i64)| {
                        acc.0 = agg.merge(acc.0, o.0);
                        acc.1 = acc.1.max(o.1);
                    },
                );
                let rk = r.group_by(|e| e.key);
                boxed(lk.join(rk).unkey().map(|(k, ((v, ts), b))| join_e(k, Some(&agg_e(k, v, ts)), Some(&b))))
            }
            BinOp::KeyedMergeAssoc(agg) => {
                let lk = l.group_by_reduce(|e| e.key, move |a: &mut E, b: E| *a = agg.combine(a, &b));
                let rk = r.group_by(|e| e.key);
                boxed(
                    lk.merge(rk)
                        .reduce(move |a: &mut E, b: E| *a = agg.combine(a, &b))
                        .unkey()
                        .map(|(k, e)| E { key: k, pad: vec![], ..e }),
                )
            }
            BinOp::IntervalJoin { lower, upper, keyed } => {
                if keyed {
                    let lk = l.group_by(|e| e.key);
                    let rk = r.group_by(|e| e.key);
                    boxed(
                        lk.interval_join(rk, lower, upper)
                            .unkey()
                            .map(|(k, (a, b))| join_e(k, Some(&a), Some(&b))),
                    )
                } else {
                    boxed(
                        l.interval_join(r, lower, upper)
                            .map(|(a, b)| join_e(0, Some(&a), Some(&b))),
                    )
                }
            }
        }
    }

    fn join(&mut self, l: DS<E>, r: DS<E>, kind: JoinKind, form: JoinForm) -> DS<E> {
        let k1 = |e: &E| e.key;
        let k2 = |e: &E| e.key;
        let inner = |(k, (a, b)): (u16, (E, E))| join_e(k, Some(&a), Some(&b));
        let left = |(k, (a, b)): (u16, (E, Option<E>))| join_e(k, Some(&a), b.as_ref());
        let outer = |(k, (a, b)): (u16, (Option<E>, Option<E>))| join_e(k, a.as_ref(), b.as_ref());
        match (form, kind) {
            (JoinForm::Shortcut, JoinKind::Inner) => boxed(l.join(r, k1, k2).unkey().map(inner)),
            (JoinForm::Shortcut, JoinKind::Left) => boxed(l.left_join(r, k1, k2).unkey().map(left)),
            (JoinForm::Shortcut, JoinKind::Outer) => boxed(l.outer_join(r, k1, k2).unkey().map(outer)),
            (JoinForm::HashHash, JoinKind::Inner) => {
                boxed(l.join_with(r, k1, k2).ship_hash().local_hash().inner().unkey().map(inner))
            }
            (JoinForm::HashHash, JoinKind::Left) => {
                boxed(l.join_with(r, k1, k2).ship_hash().local_hash().left().unkey().map(left))
            }
            (JoinForm::HashHash, JoinKind::Outer) => {
                boxed(l.join_with(r, k1, k2).ship_hash().local_hash().outer().unkey().map(outer))
            }
            (JoinForm::HashSortMerge, JoinKind::Inner) => boxed(
                l.join_with(r, k1, k2).ship_hash().local_sort_merge().inner().unkey().map(inner),
            ),
            (JoinForm::HashSortMerge, JoinKind::Left) => boxed(
                l.join_with(r, k1, k2).ship_hash().local_sort_merge().left().unkey().map(left),
            ),
            (JoinForm::HashSortMerge, JoinKind::Outer) => boxed(
                l.join_with(r, k1, k2).ship_hash().local_sort_merge().outer().unkey().map(outer),
            ),
            (JoinForm::BcastHash, JoinKind::Inner) => {
                boxed(l.join_with(r, k1, k2).ship_broadcast_right().local_hash().inner().map(inner))
            }
            (JoinForm::BcastHash, _) => {
                boxed(l.join_with(r, k1, k2).ship_broadcast_right().local_hash().left().map(left))
            }
            (JoinForm::BcastSortMerge, JoinKind::Inner) => boxed(
                l.join_with(r, k1, k2).ship_broadcast_right().local_sort_merge().inner().map(inner),
            ),
            (JoinForm::BcastSortMerge, _) => boxed(
                l.join_with(r, k1, k2).ship_broadcast_right().local_sort_merge().left().map(left),
            ),
            (JoinForm::Keyed, JoinKind::Outer) | (JoinForm::Keyed, JoinKind::Left) => {
                let lk = l.group_by(|e| e.key);
                let rk = r.group_by(|e| e.key);
                boxed(lk.join_outer(rk).unkey().map(outer))
            }
            (JoinForm::Keyed, JoinKind::Inner) => {
                let lk = l.group_by(|e| e.key);
                let rk = r.group_by(|e| e.key);
                boxed(lk.join(rk).unkey().map(inner))
            }
        }
    }

    fn build_loop(
        &mut self,
        s: DS<E>,
        spec: &LoopSpec,
        outer: &mut Vec<Option<DS<E>>>,
        path: &[usize],
    ) -> Vec<DS<E>> {
        let loop_id = self.nloops;
        self.nloops += 1;
        let agg = spec.agg;
        let stop_mod = spec.stop_mod;
        let stop_rem = spec.stop_rem;
        let sleep_us = spec.cond_sleep_us;
        let local_fold = move |d: &mut LoopDelta, e: E| {
            if d.0 == 0 {
                *d = (1, agg.step(agg.unit(), e.v));
            } else {
                d.1 = agg.step(d.1, e.v);
            }
        };
        let global_fold = move |st: &mut LoopState, d: LoopDelta| {
            if d.0 != 0 {
                st.1 = agg.merge(st.1, d.1);
            }
        };
        let cond = move |st: &mut LoopState| {
            st.0 += 1;
            if sleep_us > 0 {
                simrt::rt::sleep_local(sleep_us * 1000);
            }
            !(stop_mod > 0 && st.1.rem_euclid(stop_mod) == stop_rem)
        };
        let init: LoopState = (0, if matches!(agg, AggFn::Min | AggFn::Max) { agg.unit() } else { 0 });
        let spec2 = spec.clone();
        let path2 = path.to_vec();
        // lifetimes are erased through usize so that the closure type (which renoir's
        // `impl Operator` return types capture) stays 'static; the closure runs synchronously
        // inside replay()/iterate(), while `self` and `outer` are alive and otherwise unused
        let this: usize = self as *mut Builder<'a> as usize;
        let outer_ptr: usize = outer as *mut Vec<Option<DS<E>>> as usize;
        // the body closure runs synchronously inside replay()/iterate(); it needs the builder and
        // the enclosing streams (side inputs) while `s` is borrowed by the call
        let body = move |bs: DS<E>, state: IterationStateHandle<LoopState>| -> DS<E> {
            let me: &mut Builder<'_> = unsafe { &mut *(this as *mut Builder<'_>) };
            let outer: &mut Vec<Option<DS<E>>> = unsafe { &mut *(outer_ptr as *mut Vec<Option<DS<E>>>) };

            let bs = me.probe(bs, &path2, 0, "loophead");
            // a loop nested in a body that reads its loop state: read that *outer* state from
            // inside this inner body too (closures may capture the outer handle)
            let bs = match me.state_stack.last().cloned() {
                Some((outer_state, outer_path)) => {
                    let site = me.nsites;
                    me.nsites += 1;
                    let inner_path = Some(path2.clone());
                    boxed(bs.add_operator(|p| StateReader {
                        prev: p,
                        state: outer_state,
                        loop_id,
                        loop_path: outer_path,
                        inner_path,
                        site,
                        coord: (0, 0, 0),
                        fold_in: false,
                        round: 0,
                    }))
                }
                None => bs,
            };
            let mut local: Vec<Option<DS<E>>> = vec![Some(bs)];
            // state readers are inserted after every body step when requested
            me.build_body(&spec2, &mut local, outer, &path2, loop_id, state);
            let out = local[spec2.body_out].take().expect("loop body output missing");
            for (i, s) in local.iter().enumerate() {
                assert!(s.is_none(), "loop body leaves stream {} unconsumed", i);
            }

            me.probe(out, &path2, 0, "loopend")
        };
        if spec.iterate {
            let (st, out) = s.iterate(spec.rounds, init, move |bs, state| body(boxed(bs), state), local_fold, global_fold, cond);
            let st = boxed(st.map(|st: LoopState| E {
                id: mix(0x100B, 0),
                key: 0,
                v: st.1,
                ts: st.0 as i64,
                pad: vec![],
            }));
            vec![st, boxed(out)]
        } else {
            let st = s.replay(spec.rounds, init, move |bs, state| body(boxed(bs), state), local_fold, global_fold, cond);
            vec![boxed(st.map(|st: LoopState| E {
                id: mix(0x100B, 0),
                key: 0,
                v: st.1,
                ts: st.0 as i64,
                pad: vec![],
            }))]
        }
    }

    fn build_body(
        &mut self,
        spec: &LoopSpec,
        local: &mut Vec<Option<DS<E>>>,
        outer: &mut Vec<Option<DS<E>>>,
        path: &[usize],
        loop_id: u32,
        state: IterationStateHandle<LoopState>,
    ) {
        if spec.use_state {
            self.state_stack.push((state.clone(), path.to_vec()));
        }
        let pushed = spec.use_state;
        for (si, st) in spec.body.iter().enumerate() {
            let mut p = path.to_vec();
            p.push(si);
            // reuse the generic step builder one step at a time so that state readers can be
            // interleaved
            self.build_steps_from(std::slice::from_ref(st), local, outer, &p[..p.len() - 1], si);
            if !spec.use_state {
                // body of a loop nested in a loop whose body reads its state: read that outer
                // state after every inner step as well (also behind the inner repartitions)
                if let (Some((outer_state, outer_path)), Some(last)) = (self.state_stack.last().cloned(), local.last_mut()) {
                    if let Some(s) = last.take() {
                        let site = self.nsites;
                        self.nsites += 1;
                        let inner_path = Some(path.to_vec());
                        *last = Some(boxed(s.add_operator(|p| StateReader {
                            prev: p,
                            state: outer_state,
                            loop_id,
                            loop_path: outer_path,
                            inner_path,
                            site,
                            coord: (0, 0, 0),
                            fold_in: false,
                            round: 0,
                        })));
                    }
                }
            }
            if spec.use_state {
                // read the state right after this step on the stream it produced (if any)
                if let Some(last) = local.last_mut() {
                    if let Some(s) = last.take() {
                        let site = self.nsites;
                        self.nsites += 1;
                        let state = state.clone();
                        let loop_path = path.to_vec();
                        *last = Some(boxed(s.add_operator(|p| StateReader {
                            prev: p,
                            state,
                            loop_id,
                            loop_path,
                            inner_path: None,
                            site,
                            coord: (0, 0, 0),
                            fold_in: true,
                            round: 0,
                        })));
                    }
                }
            }
        }
        if pushed {
            self.state_stack.pop();
        }
    }

    fn build_steps_from(
        &mut self,
        steps: &[Step],
        streams: &mut Vec<Option<DS<E>>>,
        outer: &mut Vec<Option<DS<E>>>,
        prefix: &[usize],
        first_index: usize,
    ) {
        // same as build_steps but with the step index offset so that probe paths stay meaningful
        let mut pfx = prefix.to_vec();
        pfx.push(10_000 + first_index);
        self.build_steps(steps, streams, outer, &pfx);
    }

    fn sink(&mut self, s: DS<E>, kind: SinkKind) {
        let id = self.sinks.len() as u32;
        let h = match kind {
            SinkKind::CollectVec => SinkHandle::Vec(s.collect_vec()),
            SinkKind::Collect => SinkHandle::Vec(s.collect::<Vec<E>>()),
            SinkKind::CollectVecAll => SinkHandle::Vec(s.collect_vec_all()),
            SinkKind::CollectCount => SinkHandle::Count(s.collect_count()),
            SinkKind::CollectChannel => SinkHandle::Chan(s.collect_channel()),
            SinkKind::CollectAll => SinkHandle::Vec(s.collect_all::<Vec<E>>()),
            SinkKind::CollectChannelParallel => SinkHandle::Chan(s.collect_channel_parallel()),
            SinkKind::ForEach => {
                let out = Arc::new(Mutex::new(Vec::new()));
                let o2 = out.clone();
                s.for_each(move |e| o2.lock().unwrap().push(e));
                SinkHandle::ForEach(out)
            }
        };
        self.sinks.push((id, kind, h));
    }
}

/// after `execute_blocking` returned on this host: move the sink values into the recorder
pub fn harvest_sinks(sinks: Vec<(u32, SinkKind, SinkHandle)>, host: u64) {
    for (id, kind, h) in sinks {
        let v = match h {
            SinkHandle::Vec(o) => match o.get() {
                Some(v) => SinkValue::Vec(v),
                None => SinkValue::None,
            },
            SinkHandle::Count(o) => match o.get() {
                Some(n) => SinkValue::Count(n),
                None => SinkValue::None,
            },
            SinkHandle::Chan(rx) => {
                let v: Vec<E> = rx.drain().collect();
                if host == 0 || !v.is_empty() || kind == SinkKind::CollectChannelParallel {
                    SinkValue::Vec(v)
                } else {
                    SinkValue::None
                }
            }
            SinkHandle::ForEach(o) => SinkValue::Vec(std::mem::take(&mut *o.lock().unwrap())),
        };
        rec::with(|r| {
            r.sinks.insert((id, host), v);
        });
    }
}

/// helper to probe a keyed stream without leaving the keyed world
pub struct KeyedStreamProbe;

impl KeyedStreamProbe {
    pub fn probe<'a>(
        b: &mut Builder<'a>,
        k: renoir::KeyedStream<Dyn<(u16, E)>>,
        path: &[usize],
        pos: &str,
    ) -> renoir::KeyedStream<Dyn<(u16, E)>> {
        renoir::KeyedStream(b.probe(k.0, path, 0, pos))
    }
}
