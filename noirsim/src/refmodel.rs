//! Sequential reference interpreter: the meaning of a plan over whole-input vectors.
//! Shares only the per-element pure functions (elem.rs) with the job under test.

use std::collections::BTreeMap;

use crate::elem::*;
use crate::job::{join_e, line_e, memo_e, route_pred, unique_e, zip_e, ROUTE_FNS};
use crate::plan::*;
use crate::probe::Ev;

#[derive(Clone, Debug, PartialEq, Eq)]
pub enum RefSink {
    /// expected multiset (sorted)
    Multiset(Vec<E>),
    Count(usize),
    /// the reference cannot predict this sink exactly (e.g. zip of unordered inputs): only the
    /// listed weaker facts are checked
    Weak { len: Option<usize> },
}

pub struct RefResult {
    /// expected multiset at the "out" probe of every step: (path, output index) -> one entry per
    /// iteration seen at that point (None = schedule dependent, not asserted)
    pub expect: BTreeMap<(Vec<usize>, usize), Vec<Option<Vec<E>>>>,
    pub sinks: Vec<(SinkKind, RefSink)>,
    /// for sinks fed by a path on which order is determined: the expected sequence
    pub sink_seq: Vec<Option<Vec<E>>>,
    /// number of rounds each loop (in plan order) must execute
    pub loop_rounds: Vec<usize>,
    /// expected state (round, acc) at the start of each round, per loop
    pub loop_states: Vec<Vec<(u64, i64)>>,
    /// the same keyed by the path of the loop step (outermost loops only)
    pub loop_states_by_path: BTreeMap<Vec<usize>, Vec<(u64, i64)>>,
    /// rounds executed by a nested loop in each round of its enclosing loop (key: inner loop path)
    pub inner_rounds: BTreeMap<Vec<usize>, Vec<usize>>,
    /// loops whose body output is schedule dependent (e.g. zip of unordered streams)
    pub unpredictable_loops: std::collections::BTreeSet<Vec<usize>>,
    /// streams whose content is schedule dependent (propagated taint)
    pub notes: Vec<String>,
}

#[derive(Clone, Debug)]
pub struct RS {
    pub v: Vec<E>,
    /// content depends on schedule / layout (zip of unordered inputs, count windows after a
    /// shuffle, broadcast ...): only weak facts may be asserted downstream
    pub weak: bool,
    /// the order of `v` is the order in which a single consumer would see it
    pub ordered: bool,
}

fn agg_e(key: u16, v: i64, ts: i64) -> E {
    E {
        id: mix(TAG_AGG, key as u64),
        key,
        v,
        ts,
        pad: Vec::new(),
    }
}

pub fn source_elems(src: &Src) -> Vec<E> {
    match src {
        Src::Iter(v) | Src::ParIter(v) => v.clone(),
        Src::Scripted(scripts, _) => scripts
            .iter()
            .flat_map(|s| {
                s.iter().filter_map(|ev| match ev {
                    Ev::El(e) | Ev::It(e) => Some(e.clone()),
                    _ => None,
                })
            })
            .collect(),
        Src::Channel(bursts) => bursts.iter().flat_map(|(_, b)| b.iter().cloned()).collect(),
        Src::File(content) => file_lines(content).iter().map(|l| line_e(l)).collect(),
        Src::Csv(content, headers) => csv_records(content, *headers)
            .iter()
            .map(|(a, b)| line_e(&format!("{},{}", a, b)))
            .collect(),
        Src::Range(a, b) => (*a..*b)
            .map(|x| E::new(mix(0x5EED, x), (x % 5) as u16, x as i64))
            .collect(),
    }
}

/// the lines `BufRead::read_line` yields for this content (terminators kept)
pub fn file_lines(content: &[u8]) -> Vec<String> {
    let s = String::from_utf8_lossy(content).to_string();
    let mut out = Vec::new();
    let mut cur = String::new();
    for ch in s.chars() {
        cur.push(ch);
        if ch == '\n' {
            out.push(std::mem::take(&mut cur));
        }
    }
    if !cur.is_empty() {
        out.push(cur);
    }
    out
}

pub fn csv_records(content: &[u8], headers: bool) -> Vec<(String, String)> {
    let s = String::from_utf8_lossy(content).to_string();
    let mut out = Vec::new();
    for (i, line) in s.split('\n').enumerate() {
        let line = line.trim_end_matches('\r');
        if line.is_empty() {
            continue;
        }
        if headers && i == 0 {
            continue;
        }
        let mut it = line.splitn(2, ',');
        let a = it.next().unwrap_or("").to_string();
        let b = it.next().unwrap_or("").to_string();
        out.push((a, b));
    }
    out
}

pub fn eval_gb(form: GbForm, agg: AggFn, input: &[E]) -> Vec<E> {
    let mut groups: BTreeMap<u16, Vec<&E>> = BTreeMap::new();
    for e in input {
        groups.entry(e.key).or_default().push(e);
    }
    let mut out = Vec::new();
    for (k, es) in groups {
        let maxts = es.iter().map(|e| e.ts).max().unwrap_or(i64::MIN);
        match form {
            GbForm::Fold | GbForm::FoldAssoc => {
                let v = es.iter().fold(agg.unit(), |a, e| agg.step(a, e.v));
                out.push(agg_e(k, v, maxts));
            }
            GbForm::Reduce | GbForm::ReduceAssoc => {
                let mut acc = es[0].clone();
                for e in &es[1..] {
                    acc = agg.combine(&acc, e);
                }
                out.push(E { key: k, pad: vec![], ..acc });
            }
            GbForm::Sum => {
                let v = es.iter().fold(0i64, |a, e| a.wrapping_add(e.v));
                out.push(agg_e(k, v, 0));
            }
            GbForm::Count => out.push(agg_e(k, es.len() as i64, 0)),
            GbForm::Avg => {
                let sum: f64 = es.iter().map(|e| e.v.rem_euclid(1000) as f64).sum();
                let avg = sum / (es.len() as f64);
                out.push(agg_e(k, (avg * 1024.0).round() as i64, 0));
            }
            GbForm::MinEl => {
                let m = es.iter().min_by_key(|e| (e.v, e.id, e.ts)).unwrap();
                out.push(E { key: k, ..(*m).clone() });
            }
            GbForm::MaxEl => {
                let m = es.iter().max_by_key(|e| (e.v, e.id, e.ts)).unwrap();
                out.push(E { key: k, ..(*m).clone() });
            }
            GbForm::RichCounter => {
                for n in 1..=es.len() as i64 {
                    out.push(E {
                        id: mix(mix(TAG_AGG, k as u64), n as u64),
                        key: k,
                        v: n,
                        ts: 0,
                        pad: vec![],
                    });
                }
            }
            GbForm::KeyedMap => {
                for e in es {
                    out.push(E { v: e.v.wrapping_add(k as i64), ..e.clone() });
                }
            }
        }
    }
    out
}

pub fn eval_gl(form: GlForm, agg: AggFn, input: &[E]) -> Vec<E> {
    if input.is_empty() {
        return vec![];
    }
    let maxts = input.iter().map(|e| e.ts).max().unwrap();
    match form {
        GlForm::Fold | GlForm::FoldAssoc => {
            let v = input.iter().fold(agg.unit(), |a, e| agg.step(a, e.v));
            vec![agg_e(0xFFFF, v, maxts)]
        }
        GlForm::Reduce | GlForm::ReduceAssoc => {
            let mut acc = input[0].clone();
            for e in &input[1..] {
                acc = agg.combine(&acc, e);
            }
            vec![E { key: 0xFFFF, pad: vec![], ..acc }]
        }
    }
}

pub fn eval_join(kind: JoinKind, l: &[E], r: &[E]) -> Vec<E> {
    let mut out = Vec::new();
    let mut r_matched = vec![false; r.len()];
    for a in l {
        let mut any = false;
        for (j, b) in r.iter().enumerate() {
            if a.key == b.key {
                any = true;
                r_matched[j] = true;
                out.push(join_e(a.key, Some(a), Some(b)));
            }
        }
        if !any && kind != JoinKind::Inner {
            out.push(join_e(a.key, Some(a), None));
        }
    }
    if kind == JoinKind::Outer {
        for (j, b) in r.iter().enumerate() {
            if !r_matched[j] {
                out.push(join_e(b.key, None, Some(b)));
            }
        }
    }
    out
}

pub struct Interp<'a> {
    pub sc: &'a Scenario,
    pub res: RefResult,
    /// set by a step whose output, seen as stream elements, differs from the payload values in
    /// the timestamp only (count windows): used for the next step-output expectation
    stream_view: Option<Vec<E>>,
}

impl<'a> Interp<'a> {
    pub fn run(sc: &'a Scenario) -> RefResult {
        let mut it = Interp {
            sc,
            res: RefResult {
                expect: BTreeMap::new(),
                sinks: vec![],
                sink_seq: vec![],
                loop_rounds: vec![],
                loop_states: vec![],
                loop_states_by_path: BTreeMap::new(),
                unpredictable_loops: Default::default(),
                inner_rounds: BTreeMap::new(),
                notes: vec![],
            },
            stream_view: None,
        };
        let mut streams: Vec<Option<RS>> = Vec::new();
        it.steps(&sc.steps, &mut streams, &mut Vec::new(), true, &[]);
        it.res
    }

    fn take(streams: &mut [Option<RS>], outer: &mut [Option<RS>], i: usize, consume: bool) -> RS {
        let slot = if i >= SIDE_BASE {
            &mut outer[i - SIDE_BASE]
        } else {
            &mut streams[i]
        };
        if consume {
            slot.take().expect("ref: stream consumed twice")
        } else {
            slot.clone().expect("ref: stream consumed twice")
        }
    }

    /// `top`: sinks are recorded only at top level
    fn note(&mut self, prefix: &[usize], si: usize, out: usize, s: &RS) {
        let mut path = prefix.to_vec();
        path.push(si);
        self.res
            .expect
            .entry((path, out))
            .or_default()
            .push(if s.weak { None } else { Some(self.stream_view.take().filter(|v| v.len() == s.v.len()).unwrap_or_else(|| s.v.clone())) });
    }

    fn steps(&mut self, steps: &[Step], streams: &mut Vec<Option<RS>>, outer: &mut Vec<Option<RS>>, top: bool, prefix: &[usize]) {
        for (si, st) in steps.iter().enumerate() {
            let before = streams.len();
            self.step(st, streams, outer, top, prefix, si);
            for (k, idx) in (before..streams.len()).enumerate() {
                if let Some(s) = streams[idx].clone() {
                    self.note(prefix, si, k, &s);
                }
            }
        }
    }

    fn step(&mut self, st: &Step, streams: &mut Vec<Option<RS>>, outer: &mut Vec<Option<RS>>, top: bool, prefix: &[usize], si: usize) {
        self.stream_view = None;
        {
            match st {
                Step::Source(i) => {
                    let src = &self.sc.sources[*i];
                    let ordered = matches!(src, Src::Iter(_) | Src::Channel(_)) || self.sc.layout.total_cores() == 1;
                    streams.push(Some(RS {
                        v: source_elems(src),
                        weak: false,
                        ordered,
                    }));
                }
                Step::Un(i, op) => {
                    // side inputs are read (not consumed) in every round
                    let s = Self::take(streams, outer, *i, *i < SIDE_BASE);
                    let o = self.unary(s, op);
                    streams.push(Some(o));
                }
                Step::Bin(a, b, op) => {
                    let l = Self::take(streams, outer, *a, *a < SIDE_BASE);
                    let r = Self::take(streams, outer, *b, *b < SIDE_BASE);
                    let o = self.binary(l, r, op);
                    streams.push(Some(o));
                }
                Step::Split(i, n) => {
                    let s = Self::take(streams, outer, *i, *i < SIDE_BASE);
                    for _ in 0..*n {
                        streams.push(Some(s.clone()));
                    }
                }
                Step::Route(i, preds) => {
                    let s = Self::take(streams, outer, *i, *i < SIDE_BASE);
                    let mut outs: Vec<Vec<E>> = vec![vec![]; preds.len()];
                    for e in &s.v {
                        for (k, p) in preds.iter().enumerate() {
                            if ROUTE_FNS[route_pred(p)](e) {
                                outs[k].push(e.clone());
                                break;
                            }
                        }
                    }
                    for o in outs {
                        streams.push(Some(RS {
                            v: o,
                            weak: s.weak,
                            ordered: s.ordered,
                        }));
                    }
                }
                Step::Loop(i, spec) => {
                    let s = Self::take(streams, outer, *i, *i < SIDE_BASE);
                    let mut lp = prefix.to_vec();
                    lp.push(si);
                    let outs = self.eval_loop(s, spec, streams, &lp);
                    for o in outs {
                        streams.push(Some(o));
                    }
                }
                Step::Sink(i, kind) => {
                    let s = Self::take(streams, outer, *i, true);
                    if top {
                        let r = if s.weak {
                            RefSink::Weak { len: None }
                        } else {
                            match kind {
                                SinkKind::CollectCount => RefSink::Count(s.v.len()),
                                _ => {
                                    let mut v = s.v.clone();
                                    v.sort();
                                    RefSink::Multiset(v)
                                }
                            }
                        };
                        self.res.sinks.push((*kind, r));
                        self.res.sink_seq.push(if s.ordered && !s.weak { Some(s.v.clone()) } else { None });
                    }
                }
            }
        }
    }

    fn unary(&mut self, s: RS, op: &UnOp) -> RS {
        let RS { v, weak, ordered } = s;
        match op {
            UnOp::Extra(x) => match x {
                ExtraOp::FilterMap(p, f) => RS {
                    v: v.into_iter().filter(|e| p.test(e)).map(|e| f.apply(e)).collect(),
                    weak,
                    ordered,
                },
                ExtraOp::Flatten(f) | ExtraOp::RichFlatMap(f) => RS {
                    v: v.into_iter().flat_map(|e| f.apply(e)).collect(),
                    weak,
                    ordered,
                },
                ExtraOp::RichFilterMap(p) => RS {
                    v: v.into_iter().filter(|e| p.test(e)).collect(),
                    weak,
                    ordered,
                },
                ExtraOp::MemoKey => RS {
                    v: v.into_iter().map(|e| memo_e(e.key)).collect(),
                    weak,
                    ordered,
                },
                ExtraOp::UniqueKeys => {
                    let keys: std::collections::BTreeSet<u16> = v.iter().map(|e| e.key).collect();
                    RS {
                        v: keys.into_iter().map(unique_e).collect(),
                        weak,
                        ordered: false,
                    }
                }
                ExtraOp::Inspect => RS { v, weak, ordered },
                ExtraOp::KeyedChain(p, f) => RS {
                    v: v.into_iter().filter(|e| p.test(e)).flat_map(|e| f.apply(e)).collect(),
                    weak,
                    ordered: false,
                },
            },
            UnOp::Map(f) => RS {
                v: v.into_iter().map(|e| f.apply(e)).collect(),
                weak,
                ordered,
            },
            UnOp::Filter(p) => RS {
                v: v.into_iter().filter(|e| p.test(e)).collect(),
                weak,
                ordered,
            },
            UnOp::FlatMap(f) => RS {
                v: v.into_iter().flat_map(|e| f.apply(e)).collect(),
                weak,
                ordered,
            },
            UnOp::Shuffle | UnOp::RepartBy(..) => RS {
                v,
                weak,
                ordered: ordered && self.sc.layout.total_cores() == 1,
            },
            UnOp::Repl(_) | UnOp::Batch(_) | UnOp::KeyByDrop => RS { v, weak, ordered },
            UnOp::Broadcast => RS {
                v,
                weak: true,
                ordered: false,
            },
            UnOp::Gb(form, agg) => RS {
                v: eval_gb(*form, *agg, &v),
                weak,
                ordered: false,
            },
            UnOp::Gl(form, agg) => RS {
                v: eval_gl(*form, *agg, &v),
                weak,
                ordered: true,
            },
            UnOp::Reorder => {
                let mut v = v;
                v.sort_by_key(|e| e.ts);
                RS { v, weak, ordered }
            }
            UnOp::AddTs { .. } | UnOp::DropTs => RS { v, weak, ordered },
            UnOp::Win(WinKind::Count { n, s, exact }, agg) | UnOp::WinAll(WinKind::Count { n, s, exact }, agg) if ordered && !weak => {
                // on a path where every key's arrival order is determined the groups are too
                let all = matches!(op, UnOp::WinAll(..));
                let mut per_key: BTreeMap<u16, Vec<(u64, i64)>> = BTreeMap::new();
                let mut per_key_ts: BTreeMap<u16, Vec<i64>> = BTreeMap::new();
                for e in &v {
                    per_key.entry(if all { 0 } else { e.key }).or_default().push((e.id, e.v));
                    per_key_ts.entry(if all { 0 } else { e.key }).or_default().push(e.ts);
                }
                let mut outv = vec![];
                // the same results as stream elements: the job's closure resets the payload field
                // `ts`, the engine stamps the result with the largest timestamp of its group
                let mut out_ts = vec![];
                for (k, seq) in per_key {
                    // on a timestamped stream a result carries the largest timestamp of its group
                    let tss = &per_key_ts[&k];
                    let mut j = 0usize;
                    while j * s + n <= seq.len() {
                        let (id, val) = crate::win::win_value(*agg, k, &seq[j * s..j * s + n]);
                        let ts = tss[j * s..j * s + n].iter().copied().max().unwrap_or(0);
                        outv.push(E { id, key: k, v: val, ts: 0, pad: vec![] });
                        out_ts.push(E { id, key: k, v: val, ts, pad: vec![] });
                        j += 1;
                    }
                    if !exact && j * s < seq.len() {
                        let hi = seq.len().min(j * s + n);
                        let (id, val) = crate::win::win_value(*agg, k, &seq[j * s..hi]);
                        let ts = tss[j * s..hi].iter().copied().max().unwrap_or(0);
                        outv.push(E { id, key: k, v: val, ts: 0, pad: vec![] });
                        out_ts.push(E { id, key: k, v: val, ts, pad: vec![] });
                    }
                }
                self.stream_view = Some(out_ts);
                RS {
                    v: outv,
                    weak: false,
                    ordered: false,
                }
            }
            UnOp::Win(..) | UnOp::WinAll(..) => RS {
                v: vec![],
                weak: true,
                ordered: false,
            },
        }
    }

    fn binary(&mut self, l: RS, r: RS, op: &BinOp) -> RS {
        match op {
            BinOp::Merge => {
                let mut v = l.v;
                v.extend(r.v);
                RS {
                    v,
                    weak: l.weak || r.weak,
                    ordered: false,
                }
            }
            BinOp::Zip => {
                if l.ordered && r.ordered && !l.weak && !r.weak {
                    let v = l
                        .v
                        .iter()
                        .zip(r.v.iter())
                        .map(|(a, b)| zip_e(a, b))
                        .collect();
                    RS {
                        v,
                        weak: false,
                        ordered: true,
                    }
                } else {
                    RS {
                        v: vec![],
                        weak: true,
                        ordered: false,
                    }
                }
            }
            BinOp::Join(kind, form) => {
                // the keyed join only offers inner and outer; `Left` is built as outer
                let kind = match (form, kind) {
                    (JoinForm::Keyed, JoinKind::Left) => JoinKind::Outer,
                    (JoinForm::BcastHash, JoinKind::Outer) | (JoinForm::BcastSortMerge, JoinKind::Outer) => {
                        JoinKind::Left
                    }
                    (_, k) => *k,
                };
                RS {
                    v: eval_join(kind, &l.v, &r.v),
                    weak: l.weak || r.weak,
                    ordered: false,
                }
            }
            BinOp::KeyedJoinAssoc(agg) => {
                let left = eval_gb(GbForm::FoldAssoc, *agg, &l.v);
                RS {
                    v: eval_join(JoinKind::Inner, &left, &r.v),
                    weak: l.weak || r.weak,
                    ordered: false,
                }
            }
            BinOp::KeyedMergeAssoc(agg) => {
                let mut all = l.v.clone();
                all.extend(r.v.iter().cloned());
                RS {
                    v: eval_gb(GbForm::Reduce, *agg, &all),
                    weak: l.weak || r.weak,
                    ordered: false,
                }
            }
            BinOp::IntervalJoin { lower, upper, keyed } => {
                let mut v = Vec::new();
                for a in &l.v {
                    for b in &r.v {
                        if (!*keyed || a.key == b.key) && a.ts - lower <= b.ts && b.ts <= a.ts + upper {
                            v.push(join_e(if *keyed { a.key } else { 0 }, Some(a), Some(b)));
                        }
                    }
                }
                RS {
                    v,
                    weak: l.weak || r.weak,
                    ordered: false,
                }
            }
        }
    }

    fn eval_loop(&mut self, input: RS, spec: &LoopSpec, outer: &mut Vec<Option<RS>>, lpath: &[usize]) -> Vec<RS> {
        let agg = spec.agg;
        let mut state: (u64, i64) = (0, if matches!(agg, AggFn::Min | AggFn::Max) { agg.unit() } else { 0 });
        let mut cur = input.v.clone();
        let mut rounds = 0usize;
        let mut states = Vec::new();
        let mut last_out: Vec<E> = Vec::new();
        let mut weak = input.weak;
        let mut cur_ordered = input.ordered;
        loop {
            states.push(state);
            // one round
            let round_input: Vec<E> = cur
                .iter()
                .cloned()
                .collect();
            let mut local: Vec<Option<RS>> = vec![Some(RS {
                v: round_input,
                weak,
                ordered: cur_ordered,
            })];
            for (bi, st) in spec.body.iter().enumerate() {
                let mut bp = lpath.to_vec();
                bp.push(10_000 + bi);
                let before = local.len();
                self.step(st, &mut local, outer, false, &bp, 0);
                // the probe sits before the state reader: note the value before folding the state in
                for (k, idx) in (before..local.len()).enumerate() {
                    if let Some(s) = local[idx].clone() {
                        self.note(&bp, 0, k, &s);
                    }
                }
                if spec.use_state {
                    if let Some(Some(last)) = local.last_mut() {
                        for e in last.v.iter_mut() {
                            e.v = e.v.wrapping_add(state.1.rem_euclid(7));
                        }
                    }
                }
            }
            let out = local[spec.body_out].take().expect("ref: body output missing");
            weak |= out.weak;
            if out.weak {
                // the state (and with a data dependent condition the number of rounds) depends on
                // the schedule from here on: nothing about this loop can be predicted
                self.res.unpredictable_loops.insert(lpath.to_vec());
            }
            // next state: fold of all body outputs of this round
            for e in &out.v {
                state.1 = agg.step(state.1, e.v);
            }
            rounds += 1;
            // loop condition (called once per round, mutates the state)
            state.0 += 1;
            let cond = !(spec.stop_mod > 0 && state.1.rem_euclid(spec.stop_mod) == spec.stop_rem);
            last_out = out.v.clone();
            if !(cond && rounds < spec.rounds) {
                break;
            }
            if spec.iterate {
                cur = out.v;
                cur_ordered = out.ordered;
            }
        }
        self.res.loop_rounds.push(rounds);
        self.res.inner_rounds.entry(lpath.to_vec()).or_default().push(rounds);
        self.res.loop_states_by_path.insert(lpath.to_vec(), states.clone());
        self.res.loop_states.push(states);
        let st = RS {
            v: vec![E {
                id: mix(0x100B, 0),
                key: 0,
                v: state.1,
                ts: state.0 as i64,
                pad: vec![],
            }],
            weak,
            ordered: true,
        };
        if spec.iterate {
            vec![
                st,
                RS {
                    v: last_out,
                    weak,
                    ordered: false,
                },
            ]
        } else {
            vec![st]
        }
    }
}
