//! Generators for the aggregation (C07), join (C08), fan-out/fan-in (C09) and routing (C03) families.

use simrt::Tape;

use crate::elem::*;
use crate::gen::*;
use crate::gen2::{gen_scripted_source, script_opts};
use crate::plan::*;

fn profile(family: &'static str) -> Profile {
    let mut p = Profile::pipe();
    p.family = family;
    p.sinks = &[SinkKind::CollectVec, SinkKind::Collect, SinkKind::ForEach, SinkKind::CollectVecAll];
    p
}

/// input shapes: empty, single key, more keys than replicas, 90 % of the elements on one key
pub fn shaped_source(g: &mut Gen, max_len: usize) -> usize {
    let n = [0usize, 1, 2, 7, 40, 150, 600, 1000][g.t.draw(8) as usize].min(max_len);
    let shape = g.t.draw(4);
    let keys = match shape {
        0 => 1,
        1 => 3,
        2 => 400,
        _ => 25,
    };
    let par = g.t.draw(3) != 0;
    let s = g.add_source(par, n, keys);
    if shape == 3 {
        // skew: move 90 % of the elements to key 0
        if let Some(Src::Iter(v)) | Some(Src::ParIter(v)) = g.sources.last_mut() {
            for (i, e) in v.iter_mut().enumerate() {
                if i % 10 != 0 {
                    e.key = 0;
                }
            }
        }
    }
    s
}

pub fn gen_agg(t: &mut Tape) -> Scenario {
    let mut g = Gen::new(t, profile("agg"));
    let timestamped = g.t.draw(3) == 2;
    // an eighth of the untimestamped runs streams its input in bursts separated by pauses shorter
    // and longer than the batch delays: keyed state must survive idle periods
    let bursty = !timestamped && g.t.draw(8) == 7;
    let mut s = if timestamped {
        let o = script_opts(g.t, 0);
        let repl = if g.t.draw(4) == 0 { Repl::One } else { Repl::Unlimited };
        gen_scripted_source(&mut g, &o, repl)
    } else if bursty {
        let keys = [1u16, 3, 25][g.t.draw(3) as usize];
        let nb = 2 + g.t.draw(5) as usize;
        let mut bursts = vec![];
        for _ in 0..nb {
            let pause = [0u64, 500, 8_000, 70_000, 300_000][g.t.draw(5) as usize];
            let n = [1usize, 2, 5, 20][g.t.draw(4) as usize];
            bursts.push((pause, g.elems(n, keys)));
        }
        let total: usize = bursts.iter().map(|b| b.1.len()).sum();
        let si = g.sources.len();
        g.sources.push(Src::Channel(bursts));
        g.steps.push(Step::Source(si));
        g.attrs.push(Some(Attr { repl: Repl::One, depth: 0, len: total, keys: keys as usize }));
        g.attrs.len() - 1
    } else {
        shaped_source(&mut g, 1000)
    };
    for _ in 0..g.t.draw(3) {
        match g.t.draw(4) {
            0 => s = g.un(s, UnOp::Shuffle),
            1 => {
                let m = [1u16, 2, 9, 300][g.t.draw(4) as usize];
                s = g.un(s, UnOp::Map(MapFn::Rekey(m, 1)));
            }
            2 => {
                let bm = gen_bm(g.t, true);
                s = g.un(s, UnOp::Batch(bm));
            }
            _ => s = g.un(s, UnOp::Filter(PredFn::IdBit(3))),
        }
    }
    let keyed = g.t.draw(4) != 0;
    let op = if keyed {
        loop {
            let op = g.gen_gb();
            if timestamped {
                if let UnOp::Gb(f, _) = &op {
                    if !matches!(f, GbForm::Fold | GbForm::Reduce | GbForm::FoldAssoc | GbForm::ReduceAssoc | GbForm::KeyedMap) {
                        continue;
                    }
                }
            }
            break op;
        }
    } else {
        g.gen_gl()
    };
    // bursty input: mostly the operators that keep per-key state between elements
    let op = if bursty && g.t.draw(3) != 0 {
        UnOp::Gb([GbForm::RichCounter, GbForm::KeyedMap, GbForm::Fold][g.t.draw(3) as usize], AggFn::Sum)
    } else {
        op
    };
    if !timestamped && !bursty && g.t.draw(4) == 3 {
        // inside a replay body: one result per key per iteration
        let op = match op {
            UnOp::Gb(GbForm::RichCounter, a) => UnOp::Gb(GbForm::Fold, a),
            o => o,
        };
        let s2 = g.unlimited(s);
        let a = g.attrs[s2].take().unwrap();
        let spec = LoopSpec {
            iterate: false,
            rounds: 1 + g.t.draw(4) as usize,
            stop_mod: 0,
            stop_rem: 0,
            agg: AggFn::Sum,
            body: vec![Step::Un(0, op)],
            body_out: 1,
            use_state: false,
            cond_sleep_us: 0,
        };
        g.steps.push(Step::Loop(s2, spec));
        g.attrs.push(Some(Attr { repl: Repl::One, depth: a.depth, len: 1, keys: 1 }));
    } else {
        let r = g.un(s, op);
        // sometimes aggregate the aggregate
        if g.t.draw(4) == 3 {
            let op2 = g.gen_gl();
            g.un(r, op2);
        }
    }
    g.finish()
}

fn join_source(g: &mut Gen, key_off: u16) -> usize {
    let n = [0usize, 1, 4, 30, 120, 300][g.t.draw(6) as usize];
    let keys = [1u16, 2, 5, 40][g.t.draw(4) as usize];
    let par = g.t.draw(3) != 0;
    let s = g.add_source(par, n, keys);
    if key_off > 0 {
        if let Some(Src::Iter(v)) | Some(Src::ParIter(v)) = g.sources.last_mut() {
            for e in v.iter_mut() {
                e.key += key_off;
            }
        }
        if let Some(a) = g.attrs[s].as_mut() {
            a.keys += key_off as usize;
        }
    }
    s
}

pub fn gen_join(t: &mut Tape) -> Scenario {
    gen_join_opts(t, false)
}

/// `force_loop`: always the variant with the join inside a loop body (C05)
pub fn gen_join_opts(t: &mut Tape, force_loop: bool) -> Scenario {
    let mut g = Gen::new(t, profile("join"));
    let mode = if force_loop { 3 } else { g.t.draw(6) };
    if mode == 5 {
        // interval join over timestamped scripted sources
        let mut o = script_opts(g.t, 0);
        o.per_replica = o.per_replica.min(40);
        if o.wm_every == 0 {
            o.wm_every = 3;
        }
        let keyed = g.t.draw(2) == 1;
        let l = gen_scripted_source(&mut g, &o, Repl::Unlimited);
        let mut o2 = script_opts(g.t, 0);
        o2.per_replica = o2.per_replica.min(40);
        if o2.wm_every == 0 {
            o2.wm_every = 2;
        }
        let r = gen_scripted_source(&mut g, &o2, Repl::Unlimited);
        let lower = g.t.draw(12) as i64;
        let upper = g.t.draw(12) as i64;
        g.bin(l, r, BinOp::IntervalJoin { lower, upper, keyed });
        return g.finish();
    }
    // one-sided keys: shift the key range of the right side
    let off = [0u16, 0, 1, 3][g.t.draw(4) as usize];
    let mut l = join_source(&mut g, 0);
    let mut r = join_source(&mut g, off);
    for side in 0..2 {
        for _ in 0..g.t.draw(3) {
            let s = if side == 0 { &mut l } else { &mut r };
            match g.t.draw(4) {
                0 => *s = g.un(*s, UnOp::Shuffle),
                1 => *s = g.un(*s, UnOp::Map(MapFn::Add(2))),
                2 => {
                    let bm = gen_bm(g.t, true);
                    *s = g.un(*s, UnOp::Batch(bm));
                }
                _ => *s = g.un(*s, UnOp::Filter(PredFn::VMod(3, 1))),
            }
        }
    }
    let (la, ra) = (g.attrs[l].as_ref().unwrap().clone(), g.attrs[r].as_ref().unwrap().clone());
    let est = la.len * ra.len / la.keys.max(ra.keys).max(1);
    let op = if est > 8000 { BinOp::Merge } else { g.gen_join() };
    let loop_variant = mode == 4 || mode == 3;
    // inside loops the stateful sides of the local join algorithms matter most: bias towards
    // sort-merge and outer variants there
    let op = if loop_variant && !matches!(op, BinOp::Merge) && (g.t.draw(2) == 1 || force_loop) {
        let kind = [JoinKind::Outer, JoinKind::Left, JoinKind::Inner][g.t.draw(3) as usize];
        let form = [JoinForm::HashSortMerge, JoinForm::HashHash, JoinForm::Shortcut][g.t.draw(3) as usize];
        BinOp::Join(kind, form)
    } else {
        op
    };
    if loop_variant && !matches!(op, BinOp::Merge) {
        // inside a loop body: the right side is a side input. In an iterate the join output is
        // fed back, so the side gets unique keys there (at most |side| new elements per round)
        let iterate = g.t.draw(2) == 1;
        if iterate {
            for src in g.sources.iter_mut().skip(1).take(1) {
                if let Src::Iter(v) | Src::ParIter(v) = src {
                    v.truncate(40);
                    for (i, e) in v.iter_mut().enumerate() {
                        e.key = i as u16;
                    }
                }
            }
        }
        let l2 = g.unlimited(l);
        let r2 = g.unlimited(r);
        g.attrs[r2].take();
        let a = g.attrs[l2].take().unwrap();
        // the side input on either side of the join
        let mut body = if g.t.draw(2) == 1 {
            vec![Step::Bin(SIDE_BASE + r2, 0, op.clone())]
        } else {
            vec![Step::Bin(0, SIDE_BASE + r2, op.clone())]
        };
        let mut body_out = 1;
        if iterate {
            let keeps_left_repl = matches!(op, BinOp::Join(_, JoinForm::BcastHash) | BinOp::Join(_, JoinForm::BcastSortMerge));
            if !keeps_left_repl {
                // already Unlimited
            }
            // later rounds see fewer (or no) left elements and other keys: that is where state
            // carried over from the previous round would show
            let thin = [PredFn::VMod(2, 0), PredFn::IdBit(3), PredFn::KeyLt(5), PredFn::False, PredFn::True][g.t.draw(5) as usize];
            body.push(Step::Un(1, UnOp::Filter(thin)));
            let rk = [MapFn::Rekey(50, 1), MapFn::Rekey(7, 0), MapFn::Add(1)][g.t.draw(3) as usize];
            body.push(Step::Un(2, UnOp::Map(rk)));
            body.push(Step::Un(3, UnOp::Shuffle));
            body_out = 4;
        }
        let spec = LoopSpec {
            iterate,
            rounds: 1 + g.t.draw(3) as usize,
            stop_mod: 0,
            stop_rem: 0,
            agg: AggFn::Xor,
            body,
            body_out,
            use_state: false,
            cond_sleep_us: [0u64, 300, 70_000][g.t.draw(3) as usize],
        };
        g.steps.push(Step::Loop(l2, spec));
        g.attrs.push(Some(Attr { repl: Repl::One, depth: a.depth, len: 1, keys: 1 }));
        if iterate {
            g.attrs.push(Some(Attr { repl: Repl::Unlimited, depth: a.depth, len: a.len * 2, keys: 50 }));
        }
    } else {
        let j = g.bin(l, r, op);
        if g.t.draw(4) == 3 {
            g.un(j, UnOp::Map(MapFn::Add(1)));
        }
    }
    g.finish()
}

pub fn gen_fan(t: &mut Tape) -> Scenario {
    let mut g = Gen::new(t, profile("fan"));
    let mode = g.t.draw(6);
    let s0 = shaped_source(&mut g, 1000);
    let mut s = s0;
    if g.t.draw(2) == 1 {
        s = g.un(s, UnOp::Shuffle);
    }
    match mode {
        0 => {
            // split: every branch is the full stream
            let n = 2 + g.t.draw(3) as usize;
            let a = g.attrs[s].take().unwrap();
            g.steps.push(Step::Split(s, n));
            for _ in 0..n {
                g.attrs.push(Some(a.clone()));
            }
            // some branches are processed, two may be merged again (diamond)
            let open = g.open();
            if g.t.draw(2) == 1 && open.len() >= 2 {
                let b = g.un(open[1], UnOp::Map(MapFn::Add(5)));
                g.bin(open[0], b, BinOp::Merge);
            }
        }
        1 => {
            let n = 1 + g.t.draw(4) as usize;
            let preds: Vec<PredFn> = (0..n)
                .map(|_| {
                    [PredFn::VMod(4, 0), PredFn::VMod(3, 0), PredFn::KeyLt(0), PredFn::IdBit(0), PredFn::True, PredFn::False][g.t.draw(6) as usize]
                })
                .collect();
            let a = g.attrs[s].take().unwrap();
            g.steps.push(Step::Route(s, preds));
            for _ in 0..n {
                g.attrs.push(Some(a.clone()));
            }
        }
        2 => {
            // merge, possibly with an empty side
            let o = shaped_source(&mut g, 300);
            let o = if g.t.draw(2) == 1 { g.un(o, UnOp::Map(MapFn::Add(9))) } else { o };
            g.bin(s, o, BinOp::Merge);
        }
        3 => {
            let b = g.un(s, UnOp::Broadcast);
            if g.t.draw(2) == 1 {
                g.un(b, UnOp::Map(MapFn::Add(1)));
            }
        }
        _ => {
            // zip: unbalanced lengths, sequential or parallel inputs
            let n2 = [0usize, 1, 7, 100, 1000][g.t.draw(5) as usize];
            let par2 = g.t.draw(2) == 1;
            let o = g.add_source(par2, n2, 3);
            let o = if g.t.draw(3) == 2 { g.un(o, UnOp::Map(MapFn::Add(1))) } else { o };
            // sequential variant: both inputs are single-replica chains
            let variant = g.t.draw(4);
            if variant == 3 {
                // both inputs come straight from blocks with a limited replication: the zip block
                // still has one replica
                let k = 2 + g.t.draw(3) as u64;
                let a = g.unlimited(s);
                let b = g.unlimited(o);
                let a = g.un(a, UnOp::Repl(Repl::Limited(k)));
                // (renoir requires the same replication on both inputs of a binary operator)
                let b = g.un(b, UnOp::Repl(Repl::Limited(k)));
                g.steps.push(Step::Bin(a, b, BinOp::Zip));
                g.attrs[a].take();
                g.attrs[b].take();
                g.attrs.push(Some(Attr { repl: Repl::One, depth: 0, len: 0, keys: 1 }));
            } else if variant == 1 {
                let a = g.un(s, UnOp::Repl(Repl::One));
                let b = g.un(o, UnOp::Repl(Repl::One));
                // equal replication requirement (One) on both sides
                g.steps.push(Step::Bin(a, b, BinOp::Zip));
                g.attrs[a].take();
                g.attrs[b].take();
                g.attrs.push(Some(Attr { repl: Repl::One, depth: 0, len: 0, keys: 1 }));
            } else {
                g.bin(s, o, BinOp::Zip);
            }
        }
    }
    g.finish()
}

/// C03: repartitioning boundaries of every kind under varied replica counts
pub fn gen_route(t: &mut Tape) -> Scenario {
    let mut g = Gen::new(t, profile("route"));
    // heterogeneous layouts matter here: redraw with a strong remote bias
    if g.t.draw(3) != 0 {
        let nh = 1 + g.t.draw(4) as usize;
        g.layout = Layout::Remote((0..nh).map(|_| 1 + g.t.draw(4) as u64).collect());
    }
    let s0 = shaped_source(&mut g, 600);
    let mut open = vec![s0];
    if g.t.draw(3) == 2 {
        let s1 = shaped_source(&mut g, 300);
        open.push(s1);
    }
    let nsteps = 1 + g.t.draw(5) as usize;
    for _ in 0..nsteps {
        let i = g.t.draw(open.len() as u32) as usize;
        let s = open[i];
        match g.t.draw(9) {
            0 | 1 => open[i] = g.un(s, UnOp::Shuffle),
            2 => {
                let op = g.gen_gb();
                open[i] = g.un(s, op);
            }
            3 => {
                let op = if g.t.draw(3) == 2 { UnOp::Extra(ExtraOp::KeyedChain(PredFn::True, FlatFn::Copies(1))) } else { g.gen_gb() };
                open[i] = g.un(s, op);
            }
            4 => {
                let op = if g.t.draw(2) == 0 { g.gen_repart() } else { g.gen_repl(s) };
                open[i] = g.un(s, op);
            }
            5 => {
                // several downstream blocks per producer
                let n = 2 + g.t.draw(2) as usize;
                let a = g.attrs[s].take().unwrap();
                g.steps.push(Step::Split(s, n));
                open.remove(i);
                for _ in 0..n {
                    g.attrs.push(Some(a.clone()));
                    open.push(g.attrs.len() - 1);
                }
            }
            6 if open.len() >= 2 => {
                let j = (i + 1) % open.len();
                let o = open[j];
                let agg = [AggFn::Sum, AggFn::Min, AggFn::Max, AggFn::Xor][g.t.draw(4) as usize];
                let op = match g.t.draw(4) {
                    0 => BinOp::KeyedJoinAssoc(agg),
                    1 => BinOp::KeyedMergeAssoc(agg),
                    2 => BinOp::Merge,
                    _ => {
                        let (la, lb) = (g.attrs[s].as_ref().unwrap().clone(), g.attrs[o].as_ref().unwrap().clone());
                        if la.len * lb.len / la.keys.max(lb.keys).max(1) <= 6000 {
                            g.gen_join()
                        } else {
                            BinOp::Merge
                        }
                    }
                };
                let r = g.bin(s, o, op);
                let (a, b) = (i.max(j), i.min(j));
                open.remove(a);
                open.remove(b);
                open.push(r);
            }
            7 => {
                let m = [1u16, 2, 7, 400][g.t.draw(4) as usize];
                open[i] = g.un(s, UnOp::Map(MapFn::Rekey(m, 0)));
            }
            _ => {
                let bm = gen_bm(g.t, true);
                open[i] = g.un(s, UnOp::Batch(bm));
            }
        }
    }
    g.finish()
}
