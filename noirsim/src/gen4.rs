//! Generators: sources (C15), latency (C18), execution graph (C19), crash (C20).

use simrt::Tape;

use crate::elem::*;
use crate::gen::*;
use crate::plan::*;
use crate::rec::CrashPlan;

fn profile(family: &'static str) -> Profile {
    let mut p = Profile::pipe();
    p.family = family;
    p.sinks = &[SinkKind::CollectVec];
    p
}

fn gen_word(t: &mut Tape, max: usize) -> String {
    let n = t.draw(max as u32 + 1) as usize;
    let alphabet = ['a', 'b', 'z', '0', ' ', 'é', '漢', '-'];
    (0..n).map(|_| alphabet[t.draw(alphabet.len() as u32) as usize]).collect()
}

pub fn gen_file_content(t: &mut Tape) -> Vec<u8> {
    let nlines = [0usize, 1, 2, 3, 7, 30, 200][t.draw(7) as usize];
    let crlf = t.draw(4) == 3;
    let final_newline = t.draw(3) != 0;
    let mut s = String::new();
    for i in 0..nlines {
        let line = match t.draw(8) {
            0 => String::new(),
            1 => "x".repeat(1 + t.draw(300) as usize),
            _ => gen_word(t, 12),
        };
        s.push_str(&line);
        if i + 1 < nlines || final_newline {
            s.push_str(if crlf { "\r\n" } else { "\n" });
        }
    }
    if nlines == 0 && t.draw(3) == 2 {
        // only newlines
        for _ in 0..1 + t.draw(3) {
            s.push('\n');
        }
    }
    s.into_bytes()
}

pub fn gen_csv_content(t: &mut Tape, headers: bool) -> Vec<u8> {
    // up to a few buffers' worth of bytes per replica (the reader's buffer is 8 KiB)
    let n = [0usize, 1, 2, 5, 40, 200, 1500, 4000][t.draw(8) as usize];
    let wide = n >= 40 && t.draw(3) == 2;
    let crlf = t.draw(4) == 3;
    let nl = if crlf { "\r\n" } else { "\n" };
    let final_newline = t.draw(3) != 0;
    let mut s = String::new();
    if headers {
        s.push_str("left,right");
        s.push_str(nl);
    }
    for i in 0..n {
        let mut a: String = gen_word(t, 6).chars().filter(|c| *c != ' ').collect();
        if wide && i % 7 == 3 {
            a.push_str(&"w".repeat(150));
        }
        let b = format!("{}", t.draw(100000));
        s.push_str(&format!("{}{},{}", "r", a, b));
        if i + 1 < n || final_newline {
            s.push_str(nl);
        }
    }
    s.into_bytes()
}

/// boundary-biased integer for range cases of the given type (0..=9, see RANGE_TYPES)
pub const RANGE_TYPES: [&str; 10] = ["u8", "u16", "u32", "u64", "usize", "i8", "i16", "i32", "i64", "isize"];

pub fn type_bounds(ty: u8) -> (i128, i128) {
    match ty {
        0 => (0, u8::MAX as i128),
        1 => (0, u16::MAX as i128),
        2 => (0, u32::MAX as i128),
        3 => (0, u64::MAX as i128),
        4 => (0, usize::MAX as i128),
        5 => (i8::MIN as i128, i8::MAX as i128),
        6 => (i16::MIN as i128, i16::MAX as i128),
        7 => (i32::MIN as i128, i32::MAX as i128),
        8 => (i64::MIN as i128, i64::MAX as i128),
        _ => (isize::MIN as i128, isize::MAX as i128),
    }
}

fn gen_bound(t: &mut Tape, ty: u8) -> i128 {
    let (lo, hi) = type_bounds(ty);
    match t.draw(7) {
        0 => 0i128.max(lo),
        1 => lo,
        2 => hi,
        3 => lo + t.draw(20) as i128,
        4 => hi - t.draw(20) as i128,
        5 => (t.draw(2001) as i128 - 1000).clamp(lo, hi),
        _ => {
            let span = (hi - lo).min(1i128 << 62);
            (lo + (t.draw(u32::MAX) as i128 * 4099 + t.draw(u32::MAX) as i128) % (span + 1)).clamp(lo, hi)
        }
    }
}

pub fn gen_range_cases(t: &mut Tape, n: usize) -> Vec<(u8, i128, i128, u64)> {
    let mut v = vec![];
    for _ in 0..n {
        let ty = t.draw(10) as u8;
        let a = gen_bound(t, ty);
        let mut b = gen_bound(t, ty);
        // keep the element count within 2^62 as the property states
        if b - a > (1i128 << 62) {
            b = a + (1i128 << 62);
        }
        let peers = [1u64, 2, 3, 4, 7, 16, 64][t.draw(7) as usize];
        v.push((ty, a, b, peers));
    }
    v
}

pub fn gen_src(t: &mut Tape) -> Scenario {
    let mut g = Gen::new(t, profile("src"));
    // many replicas: more replicas than lines or bytes must work
    g.layout = match g.t.draw(3) {
        0 => Layout::Local(1 + g.t.draw(12) as u64),
        1 => Layout::Remote((0..1 + g.t.draw(3)).map(|_| 1 + g.t.draw(5) as u64).collect()),
        _ => Layout::Local(1 + g.t.draw(4) as u64),
    };
    let mode = g.t.draw(5);
    let si = g.sources.len();
    match mode {
        0 | 1 => {
            let c = gen_file_content(g.t);
            g.sources.push(Src::File(c));
        }
        2 => {
            let h = g.t.draw(2) == 1;
            let c = gen_csv_content(g.t, h);
            g.sources.push(Src::Csv(c, h));
        }
        3 => {
            let a = g.t.draw(50) as u64;
            let n = [0u64, 1, 5, 100, 1000][g.t.draw(5) as usize];
            g.sources.push(Src::Range(a, a + n));
        }
        _ => {
            // non-parallel source: every item once, in order, on one replica
            let n = g.gen_len().min(500);
            let v = g.elems(n, 5);
            g.sources.push(Src::Iter(v));
        }
    }
    g.steps.push(Step::Source(si));
    g.attrs.push(Some(Attr {
        repl: if mode == 4 { Repl::One } else { Repl::Unlimited },
        depth: 0,
        len: 200,
        keys: 7,
    }));
    let s = g.attrs.len() - 1;
    if g.t.draw(3) == 2 {
        g.un(s, UnOp::Map(MapFn::Add(0)));
    }
    let cases = gen_range_cases(g.t, 24);
    let mut sc = g.finish();
    sc.knobs.rates.insert("short_read".into(), [0u32, 200, 700, 1000][sc.range_cases.len() % 4]);
    sc.range_cases = cases;
    sc
}

/// C18: channel source -> chain of non-buffering operators with adaptive batching -> collect_channel
pub fn gen_latency(t: &mut Tape) -> Scenario {
    let mut p = profile("latency");
    p.faults = &["clock_skew", "select_bias", "sender_order"];
    p.sinks = &[SinkKind::CollectChannel];
    let mut g = Gen::new(t, p);
    let d_us = [1_000u64, 5_000, 50_000, 200_000][g.t.draw(4) as usize];
    let n = [1usize, 2, 16, 1024][g.t.draw(4) as usize];
    let nb = 1 + g.t.draw(6) as usize;
    let mut bursts = vec![];
    for i in 0..nb {
        // pauses far longer than the delay (so that every burst is observed in isolation),
        // comparable to it, or much shorter
        let pause = match g.t.draw(4) {
            0 if i > 0 => d_us / 7,
            1 if i > 0 => d_us + 13,
            2 => d_us * 40,
            _ => d_us * 12,
        };
        let k = [1usize, 1, 2, 5, 20][g.t.draw(5) as usize];
        let b = g.elems(k, 5);
        bursts.push((pause, b));
    }
    let si = g.sources.len();
    g.sources.push(Src::Channel(bursts));
    g.steps.push(Step::Source(si));
    g.attrs.push(Some(Attr { repl: Repl::One, depth: 0, len: 100, keys: 5 }));
    let mut s = g.attrs.len() - 1;
    let depth = 1 + g.t.draw(5) as usize;
    for _ in 0..depth {
        let op = match g.t.draw(9) {
            0 | 1 => UnOp::Shuffle,
            2 => UnOp::Gb(GbForm::KeyedMap, AggFn::Sum),
            3 => UnOp::Map(MapFn::Add(1)),
            4 => UnOp::KeyByDrop,
            5 => UnOp::Filter(PredFn::True),
            6 => {
                // route() into two branches that are merged again: every element takes one of them
                let a = g.attrs[s].take().unwrap();
                g.steps.push(Step::Route(s, vec![PredFn::IdBit(0), PredFn::True]));
                let v0 = g.attrs.len();
                g.attrs.push(Some(a.clone()));
                g.attrs.push(Some(a));
                let x = if g.t.draw(2) == 1 { g.un(v0, UnOp::Map(MapFn::Add(1))) } else { v0 };
                s = g.bin(x, v0 + 1, BinOp::Merge);
                continue;
            }
            7 => {
                // split(): one branch drops everything, the other carries the elements; merged again
                let a = g.attrs[s].take().unwrap();
                g.steps.push(Step::Split(s, 2));
                let v0 = g.attrs.len();
                g.attrs.push(Some(a.clone()));
                g.attrs.push(Some(a));
                let x = g.un(v0, UnOp::Filter(PredFn::False));
                s = if g.t.draw(2) == 1 { g.bin(x, v0 + 1, BinOp::Merge) } else { g.bin(v0 + 1, x, BinOp::Merge) };
                continue;
            }
            _ => {
                // merge with a bounded side that ends at once
                let n2 = [0usize, 3][g.t.draw(2) as usize];
                let o = g.add_source(false, n2, 5);
                s = if g.t.draw(2) == 1 { g.bin(s, o, BinOp::Merge) } else { g.bin(o, s, BinOp::Merge) };
                continue;
            }
        };
        s = g.un(s, op);
    }
    g.attrs[s].take();
    g.steps.push(Step::Sink(s, SinkKind::CollectChannel));
    let mut sc = g.finish();
    // mostly adaptive batching (the latency bound applies); otherwise another batch mode on the
    // very same pipeline: no bound then, but everything is delivered when the channel closes and
    // the result is the same
    sc.bm = match sc.steps.len() % 5 {
        0 => [Bm::Default, Bm::Single, Bm::Fixed(3), Bm::Fixed(1024)][(d_us as usize / 1000) % 4],
        _ => Bm::Adaptive(n, d_us),
    };
    // keep the channel open long enough for a withheld element to be noticed
    sc.client_grace_us = d_us * 60;
    // timing faults other than clock skew would have to be added to the bound: keep them out
    sc.knobs.rates.retain(|k, _| k == "clock_skew" || k == "select_bias" || k == "sender_order");
    sc
}

/// C19: graphs with every replication variant on heterogeneous layouts
pub fn gen_graph(t: &mut Tape) -> Scenario {
    let mut p = Profile::pipe();
    p.family = "graph";
    p.max_elems = 60;
    p.w_repl = 30;
    p.w_split = 10;
    p.w_route = 6;
    p.w_loop = 6;
    p.w_join = 6;
    p.w_zip = 5;
    p.allow_known_defects = true;
    let mut g = Gen::new(t, p.clone());
    let nh = 1 + g.t.draw(5) as usize;
    g.layout = if g.t.draw(5) == 0 {
        Layout::Local(1 + g.t.draw(6) as u64)
    } else {
        Layout::Remote((0..nh).map(|_| 1 + g.t.draw(6) as u64).collect())
    };
    let nsrc = 1 + g.t.draw(2) as usize;
    for _ in 0..nsrc {
        let par = g.t.draw(3) != 0;
        let n = [0usize, 3, 20, 60][g.t.draw(4) as usize];
        g.add_source(par, n, 7);
    }
    let nsteps = 1 + g.t.draw(8) as usize;
    for _ in 0..nsteps {
        g.grow(true);
    }
    g.finish()
}

/// C20: acyclic jobs with a user-function panic at a chosen (probe, replica, element)
pub fn gen_crash(t: &mut Tape, site: u64) -> Scenario {
    let mut p = Profile::pipe();
    p.family = "crash";
    p.max_elems = 200;
    p.max_steps = 6;
    p.w_loop = 0;
    p.w_zip = 2;
    // a fifth of the jobs is a single block (source, element-wise operators, a sink without
    // repartition): nothing downstream notices the failure, only the join of the worker does
    let shape = t.draw(6);
    let mut sc = if shape == 5 {
        // a streaming job: channel source (one replica), element-wise operators, optionally a
        // second branch, one repartition fed by that single replica, element-wise operators, sinks.
        // The client keeps feeding elements until the failure is reported: every upstream worker
        // sooner or later sends to the failed replica, so the failure must surface while the
        // stream is still open
        let mut g = Gen::new(t, p);
        // one host: across hosts the demultiplexer only logs a failed hand-over to a dead replica
        // (network/sync/demultiplexer.rs), so a remote producer learns nothing before the stream
        // ends - renoir's design, not decided here
        g.layout = Layout::Local(1 + g.t.draw(6) as u64);
        let n = [0usize, 3, 20][g.t.draw(3) as usize];
        let burst = g.elems(n, 7);
        let si = g.sources.len();
        g.sources.push(Src::Channel(vec![(0, burst)]));
        g.steps.push(Step::Source(si));
        g.attrs.push(Some(Attr { repl: Repl::One, depth: 0, len: n, keys: 7 }));
        let mut s = g.attrs.len() - 1;
        let ew = |g: &mut Gen, s: usize| -> usize {
            let op = match g.t.draw(4) {
                0 => UnOp::Map(MapFn::Add(1)),
                1 => UnOp::Filter(PredFn::True),
                2 => UnOp::FlatMap(FlatFn::Copies(2)),
                _ => UnOp::KeyByDrop,
            };
            g.un(s, op)
        };
        for _ in 0..g.t.draw(3) {
            s = ew(&mut g, s);
        }
        let mut branches = vec![];
        if g.t.draw(3) == 2 {
            let a = g.attrs[s].take().unwrap();
            g.steps.push(Step::Split(s, 2));
            for _ in 0..2 {
                g.attrs.push(Some(a.clone()));
                branches.push(g.attrs.len() - 1);
            }
        } else {
            branches.push(s);
        }
        for b in branches {
            let op = match g.t.draw(3) {
                0 => UnOp::Shuffle,
                1 => UnOp::Gb(GbForm::KeyedMap, AggFn::Sum),
                _ => UnOp::RepartBy(Repl::Unlimited, 7),
            };
            let mut b = g.un(b, op);
            for _ in 0..g.t.draw(3) {
                b = ew(&mut g, b);
            }
            g.attrs[b].take();
            let k = [SinkKind::CollectVec, SinkKind::ForEach, SinkKind::CollectChannelParallel, SinkKind::CollectCount][g.t.draw(4) as usize];
            g.steps.push(Step::Sink(b, k));
        }
        let mut sc = g.finish();
        sc.stream_until_failure = true;
        // batches must leave while the stream is open: no large fixed-size batches
        sc.bm = match sc.knobs.switch_permille % 4 {
            _ if sc.steps.len() % 2 == 0 => Bm::Single,
            0 => Bm::Default,
            1 => Bm::Fixed(1 + sc.steps.len() % 3),
            _ => Bm::Adaptive(1 + sc.steps.len() % 5, 1000),
        };
        sc
    } else if shape == 4 {
        let mut g = Gen::new(t, p);
        let n = [3usize, 20, 200][g.t.draw(3) as usize];
        let par = g.t.draw(4) != 0;
        let mut s = g.add_source(par, n, 7);
        for _ in 0..g.t.draw(4) {
            let op = match g.t.draw(4) {
                0 => UnOp::Map(MapFn::Add(1)),
                1 => UnOp::Filter(PredFn::IdBit(1)),
                2 => UnOp::FlatMap(FlatFn::Copies(2)),
                _ => UnOp::KeyByDrop,
            };
            s = g.un(s, op);
        }
        g.attrs[s].take();
        let k = [SinkKind::ForEach, SinkKind::CollectChannelParallel][g.t.draw(2) as usize];
        g.steps.push(Step::Sink(s, k));
        g.finish()
    } else {
        gen_pipe(t, p)
    };
    // site index -> (probe, replica ordinal, position): all operators x replicas x {first, 4th, end}
    let streaming = sc.stream_until_failure;
    sc.crash = Some(CrashPlan {
        probe: (site / 9) as u32,
        replica_ordinal: ((site / 3) % 3) as u32,
        // (in a streaming job the iteration only ends when the client closes the channel)
        nth: [0u32, 3, if streaming { 7 } else { 1_000_000 }][(site % 3) as usize],
        // string and non-string panic payloads
        payload: (((site / 9) + (site % 3)) % 3) as u8,
    });
    sc
}
