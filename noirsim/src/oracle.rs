//! Oracles: evaluate one property's claims over the recorded history of one run.

use std::collections::{BTreeMap, BTreeSet};

use simrt::Verdict;

use crate::elem::E;
use crate::plan::*;
use crate::rec::*;
use crate::refmodel::{Interp, RefResult, RefSink};
use crate::run::RunResult;

#[derive(Clone, Debug, serde::Serialize, serde::Deserialize)]
pub struct Violation {
    pub prop: String,
    pub class: String,
    pub msg: String,
}

pub fn viol(prop: &str, class: &str, msg: String) -> Violation {
    Violation {
        prop: prop.to_string(),
        class: format!("{}/{}", prop, class),
        msg,
    }
}

/// facts about a run that several oracles and the evidence need
pub struct RunFacts {
    pub completed: bool,
    pub any_host_panicked: bool,
    pub nontrivial: bool,
}

pub fn facts(sc: &Scenario, rr: &RunResult) -> RunFacts {
    let completed = rr.outcome.verdict == Verdict::Completed;
    let any_host_panicked = rr.rec.hosts.iter().any(|h| h.panicked.is_some());
    // non-trivial: some block has >= 2 replicas and some cross-replica link carried >= 2 batches
    let multi = sc.layout.total_cores() >= 2;
    let busy_link = rr
        .rec
        .links
        .iter()
        .any(|(k, l)| k.from != k.to && l.recv_batches.len() >= 2);
    RunFacts {
        completed,
        any_host_panicked,
        nontrivial: multi && busy_link,
    }
}

fn sorted(mut v: Vec<E>) -> Vec<E> {
    v.sort();
    v
}

fn diff_summary(got: &[E], want: &[E]) -> String {
    let mut g: BTreeMap<&E, i64> = BTreeMap::new();
    for e in got {
        *g.entry(e).or_default() += 1;
    }
    for e in want {
        *g.entry(e).or_default() -= 1;
    }
    let extra: Vec<_> = g.iter().filter(|(_, c)| **c > 0).take(3).collect();
    let missing: Vec<_> = g.iter().filter(|(_, c)| **c < 0).take(3).collect();
    let brief = |e: &E| format!("(id={:x} key={} v={} ts={})", e.id, e.key, e.v, e.ts);
    format!(
        "got {} want {}; extra: {:?}; missing: {:?}",
        got.len(),
        want.len(),
        extra.iter().map(|(e, c)| format!("{}x{}", brief(e), c)).collect::<Vec<_>>(),
        missing.iter().map(|(e, c)| format!("{}x{}", brief(e), -**c)).collect::<Vec<_>>()
    )
}

/// the value a sink delivered, merged over the hosts that own it
fn sink_got(rec: &Recorder, sink: u32, kind: SinkKind, hosts: usize) -> Vec<(u64, SinkValue)> {
    let mut out = vec![];
    for h in 0..hosts as u64 {
        let v = rec.sinks.get(&(sink, h)).cloned().unwrap_or(SinkValue::None);
        out.push((h, v));
    }
    let _ = kind;
    out
}

pub fn check_sinks(prop: &str, sc: &Scenario, rr: &RunResult, reference: &RefResult, as_sequence: bool) -> Vec<Violation> {
    let mut out = vec![];
    let hosts = sc.layout.hosts();
    for (sid, (kind, want)) in reference.sinks.iter().enumerate() {
        let got = sink_got(&rr.rec, sid as u32, *kind, hosts);
        match kind {
            SinkKind::CollectVecAll | SinkKind::CollectAll => {
                for (h, v) in &got {
                    match (v, want) {
                        (SinkValue::Vec(g), RefSink::Multiset(w)) => {
                            if &sorted(g.clone()) != w {
                                out.push(viol(prop, "sink-multiset", format!("sink {} (collect_vec_all) on host {}: {}", sid, h, diff_summary(g, w))));
                            }
                        }
                        (SinkValue::None, RefSink::Multiset(_)) => out.push(viol(prop, "sink-missing", format!("sink {} (collect_vec_all) has no value on host {}", sid, h))),
                        _ => {}
                    }
                }
            }
            SinkKind::ForEach | SinkKind::CollectChannelParallel => {
                let mut all = vec![];
                for (_, v) in &got {
                    if let SinkValue::Vec(g) = v {
                        all.extend(g.iter().cloned());
                    }
                }
                if let RefSink::Multiset(w) = want {
                    if &sorted(all.clone()) != w {
                        out.push(viol(prop, "sink-multiset", format!("sink {} (for_each): {}", sid, diff_summary(&all, w))));
                    }
                }
            }
            _ => {
                // single-replica sinks live on host 0
                let v0 = &got[0].1;
                match (v0, want) {
                    (SinkValue::Vec(g), RefSink::Multiset(w)) => {
                        if as_sequence {
                            // handled by the caller with the ordered reference
                        }
                        if &sorted(g.clone()) != w {
                            out.push(viol(prop, "sink-multiset", format!("sink {} ({:?}): {}", sid, kind, diff_summary(g, w))));
                        }
                    }
                    (SinkValue::Count(g), RefSink::Count(w)) => {
                        if g != w {
                            out.push(viol(prop, "sink-count", format!("sink {} (collect_count): got {} want {}", sid, g, w)));
                        }
                    }
                    (SinkValue::Count(g), RefSink::Multiset(w)) => {
                        if *g != w.len() {
                            out.push(viol(prop, "sink-count", format!("sink {} (collect_count): got {} want {}", sid, g, w.len())));
                        }
                    }
                    (SinkValue::None, RefSink::Weak { .. }) => out.push(viol(prop, "sink-missing", format!("sink {} ({:?}) has no value on host 0", sid, kind))),
                    (SinkValue::None, RefSink::Count(0)) if *kind == SinkKind::CollectCount => {
                        // collect_count of an empty stream: the pre-aggregating fold emits nothing
                        out.push(viol(prop, "sink-missing", format!("sink {} (collect_count) has no value on host 0", sid)));
                    }
                    (SinkValue::None, _) => out.push(viol(prop, "sink-missing", format!("sink {} ({:?}) has no value on host 0", sid, kind))),
                    _ => {}
                }
            }
        }
    }
    out
}

// ------------------------------------------------------------------------------------------
// C01
// ------------------------------------------------------------------------------------------

pub fn c01(sc: &Scenario, rr: &RunResult) -> Vec<Violation> {
    if rr.outcome.verdict != Verdict::Completed {
        // a job that does not terminate delivers nothing to its sinks; keep the termination
        // classes of C04 so that the same known findings apply
        return c04(sc, rr)
            .into_iter()
            .map(|v| viol("C01", &format!("no-result-{}", v.class.trim_start_matches("C04/")), v.msg))
            .collect();
    }
    let reference = Interp::run(sc);
    check_sinks("C01", sc, rr, &reference, false)
}

// ------------------------------------------------------------------------------------------
// C02
// ------------------------------------------------------------------------------------------

/// Between the operator chain and the link sits the batcher: every marker (watermark,
/// FlushAndRestart, Terminate) a producer replica emits must reach each of its links after all the
/// data it emitted before that marker and before all the data it emitted afterwards.
fn batcher_order(sc: &Scenario, rr: &RunResult) -> Vec<Violation> {
    let mut out = vec![];
    for (si, st) in sc.steps.iter().enumerate() {
        // boundaries on which every data element goes to exactly one link of the producer
        let positions: &[&str] = match st {
            Step::Un(_, UnOp::Shuffle) | Step::Un(_, UnOp::Repl(_)) | Step::Un(_, UnOp::RepartBy(..)) | Step::Un(_, UnOp::Win(..)) | Step::Un(_, UnOp::Extra(ExtraOp::KeyedChain(..))) => &["pre"],
            Step::Un(_, UnOp::Gb(f, _)) if matches!(f, GbForm::Fold | GbForm::Reduce | GbForm::RichCounter | GbForm::KeyedMap) => &["pre"],
            Step::Bin(_, _, BinOp::Merge) | Step::Bin(_, _, BinOp::Zip) => &["preL", "preR"],
            _ => continue,
        };
        let Some(start) = rr.meta.iter().find(|m| m.path == [si] && m.pos == "start") else { continue };
        let cons_blocks: BTreeSet<u64> = rr.rec.probes.keys().filter(|(p, _)| *p == start.id).map(|(_, c)| c.0).collect();
        for pos in positions {
            let Some(pm) = rr.meta.iter().find(|m| m.path == [si] && m.pos == *pos) else { continue };
            for ((pid, pc), hist) in &rr.rec.probes {
                if *pid != pm.id {
                    continue;
                }
                // data emitted before each marker, at the producer
                let mut want: Vec<(u8, i64, usize)> = vec![];
                let mut n = 0usize;
                for r in hist {
                    match r.kind {
                        K_ITEM | K_TS => n += 1,
                        K_WM | K_FAR | K_TERM => want.push((r.kind, r.ts, n)),
                        _ => {}
                    }
                }
                // the same over all links of this producer towards the consumer block
                let links: Vec<&LinkLog> = rr
                    .rec
                    .links
                    .iter()
                    .filter(|(k, _)| k.from == *pc && cons_blocks.contains(&k.to.0) && k.prev_block == pc.0)
                    .map(|(_, l)| l)
                    .collect();
                if links.is_empty() {
                    continue;
                }
                let nm = links.iter().map(|l| l.recv.iter().filter(|e| matches!(e.kind, K_WM | K_FAR | K_TERM)).count()).min().unwrap_or(0);
                for j in 0..nm.min(want.len()) {
                    let mut got_n = 0usize;
                    let mut marker = None;
                    for l in &links {
                        let mut seen = 0usize;
                        let mut data = 0usize;
                        for e in &l.recv {
                            match e.kind {
                                K_ITEM | K_TS => data += 1,
                                K_WM | K_FAR | K_TERM => {
                                    if seen == j {
                                        marker = Some((e.kind, e.ts));
                                        break;
                                    }
                                    seen += 1;
                                }
                                _ => {}
                            }
                        }
                        got_n += data;
                    }
                    let (wk, wts, wn) = want[j];
                    if marker != Some((wk, wts)) || got_n != wn {
                        out.push(viol(
                            "C02",
                            "batcher-order",
                            format!(
                                "producer {:?} (step {}): its marker #{} {}({}) was emitted after {} data elements, but the consumers received {:?} after {} data elements",
                                pc, si, j, kind_name(wk), wts, wn, marker.map(|m| (kind_name(m.0), m.1)), got_n
                            ),
                        ));
                        return out;
                    }
                }
            }
        }
    }
    out
}

pub fn c02(sc: &Scenario, rr: &RunResult) -> Vec<Violation> {
    let mut out = vec![];
    if rr.outcome.verdict == Verdict::Completed && !rr.rec.hosts.iter().any(|h| h.panicked.is_some()) {
        out.extend(batcher_order(sc, rr));
    }
    let completed = rr.outcome.verdict == Verdict::Completed && !rr.rec.hosts.iter().any(|h| h.panicked.is_some());
    if rr.outcome.verdict == Verdict::Deadlock {
        // Everything is blocked. If every multiplexer waits for more to send and every
        // demultiplexer waits for more to read, nothing is in the hands of a blocked network
        // thread; a remote link that still holds sent-but-undelivered batches while its consumer
        // waits for input has then lost them in transit (e.g. in a buffer nobody flushes).
        let idle_net = rr.outcome.threads.iter().filter(|t| !t.finished).all(|t| {
            let what = t.blocked_on.as_ref().map(|b| b.0.as_str()).unwrap_or("");
            if t.name.starts_with("mux-") {
                what == "chan.recv"
            } else if t.name.starts_with("demux-") {
                what == "tcp.read" || what == "chan.recv"
            } else {
                true
            }
        });
        if idle_net {
            for (k, l) in &rr.rec.links {
                if k.from.1 != k.to.1 && l.sent.len() > l.recv.len() {
                    let consumer_waiting = rr.outcome.threads.iter().any(|t| {
                        !t.finished
                            && t.host as u64 == k.to.1
                            && t.name == format!("block-{}", k.to.0)
                            && t.blocked_on.as_ref().map(|b| b.0.starts_with("chan.recv") || b.0 == "select").unwrap_or(false)
                    });
                    if consumer_waiting {
                        out.push(viol(
                            "C02",
                            "link-withheld-in-transit",
                            format!(
                                "link {:?} -> {:?} (prev block {}): {} elements were sent, only {} delivered; the job is deadlocked with the consumer waiting for input and every multiplexer / demultiplexer thread idle",
                                k.from, k.to, k.prev_block, l.sent.len(), l.recv.len()
                            ),
                        ));
                        return out;
                    }
                }
            }
        }
    }
    for (k, l) in &rr.rec.links {
        if let Some(p) = l.bad_path {
            out.push(viol("C02", "link-unknown-type", format!("link {:?}: {}", k, p)));
            continue;
        }
        let n = l.sent.len().min(l.recv.len());
        let mut bad = None;
        for i in 0..n {
            if l.sent[i] != l.recv[i] {
                bad = Some(i);
                break;
            }
        }
        if let Some(i) = bad {
            // classify
            let sent_fps: BTreeSet<u64> = l.sent.iter().map(|e| e.fp).collect();
            let class = if !sent_fps.contains(&l.recv[i].fp) {
                "link-alter-or-foreign"
            } else if i > 0 && l.recv[..i].iter().any(|e| e.fp == l.recv[i].fp) && l.sent[..=i].iter().filter(|e| e.fp == l.recv[i].fp).count() < l.recv[..=i].iter().filter(|e| e.fp == l.recv[i].fp).count() {
                "link-duplicate"
            } else {
                "link-reorder-or-loss"
            };
            out.push(viol(
                "C02",
                class,
                format!(
                    "link {:?} -> {:?} (prev block {}): element #{} received {{{} ts={}}} but #{} sent was {{{} ts={}}} (sent {}, received {})",
                    k.from, k.to, k.prev_block, i, kind_name(l.recv[i].kind), l.recv[i].ts, i, kind_name(l.sent[i].kind), l.sent[i].ts, l.sent.len(), l.recv.len()
                ),
            ));
            continue;
        }
        if l.recv.len() > l.sent.len() {
            out.push(viol(
                "C02",
                "link-duplicate-or-foreign",
                format!("link {:?} -> {:?}: received {} elements but only {} were sent", k.from, k.to, l.recv.len(), l.sent.len()),
            ));
            continue;
        }
        if completed && l.recv.len() < l.sent.len() {
            // tolerated: a trailing suffix made only of end-of-stream control elements that the
            // consumer did not need to read before leaving (its loss would otherwise show up as a
            // deadlock, which is C04's business)
            let tail = &l.sent[l.recv.len()..];
            let only_end_markers = tail.iter().all(|e| e.kind == K_TERM || e.kind == K_FAR || e.kind == K_FB);
            if !only_end_markers {
                out.push(viol(
                    "C02",
                    "link-loss",
                    format!(
                        "link {:?} -> {:?} (prev block {}): sent {} elements, received only {}; first lost: {}",
                        k.from, k.to, k.prev_block, l.sent.len(), l.recv.len(), kind_name(tail[0].kind)
                    ),
                ));
            }
        }
    }
    out
}

// ------------------------------------------------------------------------------------------
// C04
// ------------------------------------------------------------------------------------------

pub fn deadlock_class(rr: &RunResult) -> String {
    let mut kinds: BTreeSet<String> = BTreeSet::new();
    for t in &rr.outcome.threads {
        if !t.finished {
            if let Some((what, _)) = &t.blocked_on {
                // thread names: block-N, mux-.., demux-.., reg-.., host-N
                let base: String = t.name.split(|c: char| c == '-' || c == ':').next().unwrap_or("").to_string();
                kinds.insert(format!("{}@{}", base, what));
            }
        }
    }
    kinds.into_iter().collect::<Vec<_>>().join("+")
}

/// capacity of renoir's inter-block channels (network/network_channel.rs)
const RENOIR_CHANNEL_CAPACITY: usize = 16;

fn loop_input_backlog(rr: &RunResult) -> bool {
    let Some(g) = rr.rec.graphs.first() else { return false };
    // blocks that host a loop head (replay or iterate)
    let mut heads: BTreeSet<u64> = BTreeSet::new();
    for m in rr.meta.iter().filter(|m| m.pos == "loophead") {
        for ((p, c), _) in rr.rec.probes.iter() {
            if *p == m.id {
                heads.insert(c.0);
            }
        }
    }
    let replicas = |b: u64| g.blocks.iter().find(|x| x.id == b).map(|x| x.replicas.len()).unwrap_or(0);
    let blocked: Vec<_> = rr
        .outcome
        .threads
        .iter()
        .filter(|t| !t.finished && t.blocked_on.as_ref().map(|b| b.0 == "chan.send").unwrap_or(false))
        .collect();
    if blocked.is_empty() {
        return false;
    }
    let mut targets: BTreeSet<u64> = BTreeSet::new();
    // senders blocked on something else: (from block, to blocks)
    let mut others: Vec<(u64, Vec<u64>)> = vec![];
    for t in &blocked {
        if let Some(rest) = t.name.strip_prefix("demux-") {
            // demux-<host>:<from>-<to>
            let Some((_, link)) = rest.split_once(':') else { return false };
            let Some((a, b)) = link.split_once('-') else { return false };
            let (Ok(a), Ok(b)) = (a.parse::<u64>(), b.parse::<u64>()) else { return false };
            if !heads.contains(&b) || replicas(a) <= RENOIR_CHANNEL_CAPACITY {
                others.push((a, vec![b]));
                continue;
            }
            targets.insert(b);
        } else if let Some(n) = t.name.strip_prefix("block-").and_then(|x| x.parse::<u64>().ok()) {
            let outs: Vec<u64> = g.block_edges.iter().filter(|(f, _, _)| *f == n).map(|(_, t, _)| *t).collect();
            if outs.is_empty() || !outs.iter().all(|o| heads.contains(o)) || replicas(n) <= RENOIR_CHANNEL_CAPACITY {
                others.push((n, outs));
                continue;
            }
            targets.extend(outs);
        } else {
            return false;
        }
    }
    if targets.is_empty() {
        return false;
    }
    // every other blocked sender must be a consequence: it feeds a block that also waits for
    // the output of the stuck loop (a block downstream of a stuck loop head that has stopped
    // reading its other input until the loop's side arrives)
    let mut down: BTreeSet<u64> = targets.clone();
    loop {
        let before = down.len();
        for (f, t, _) in &g.block_edges {
            if down.contains(f) {
                down.insert(*t);
            }
        }
        if down.len() == before {
            break;
        }
    }
    for (_, outs) in &others {
        if outs.is_empty() || !outs.iter().all(|o| down.contains(o) && !targets.contains(o)) {
            return false;
        }
    }
    // replicas of the target blocks are waiting in a receive
    targets.iter().all(|b| {
        rr.outcome
            .threads
            .iter()
            .any(|t| !t.finished && t.name == format!("block-{}", b) && t.blocked_on.as_ref().map(|x| x.0 == "chan.recv").unwrap_or(false))
    })
}

pub fn c04(sc: &Scenario, rr: &RunResult) -> Vec<Violation> {
    let mut out = vec![];
    match rr.outcome.verdict {
        Verdict::Deadlock => {
            // is the head block of an `iterate` loop blocked while sending into its own body?
            let mut iter_heads: BTreeSet<u64> = BTreeSet::new();
            for m in rr.meta.iter().filter(|m| m.pos == "loophead") {
                if loop_at(&sc.steps, &m.path).map(|l| l.iterate).unwrap_or(false) {
                    for ((p, c), _) in rr.rec.probes.iter() {
                        if *p == m.id {
                            iter_heads.insert(c.0);
                        }
                    }
                }
            }
            let head_blocked = rr.outcome.threads.iter().any(|t| {
                !t.finished
                    && t.blocked_on.as_ref().map(|b| b.0 == "chan.send").unwrap_or(false)
                    && t.name.strip_prefix("block-").and_then(|x| x.parse::<u64>().ok()).map(|b| iter_heads.contains(&b)).unwrap_or(false)
            });
            // or: does every blocked sender (producer replica or demultiplexer) wait on the inbox
            // of a block that hosts a loop head, fed by more producer replicas than a channel
            // holds, while replicas of that block wait in a receive (for the loop state)?
            let backlog = !head_blocked && loop_input_backlog(rr);
            let kind = if head_blocked {
                "deadlock-iterate-backpressure"
            } else if backlog {
                "deadlock-loop-input-backlog"
            } else {
                "deadlock"
            };
            out.push(viol(
                "C04",
                &format!("{}/{}", kind, deadlock_class(rr)),
                format!("no runnable thread and no pending timer:\n{}", rr.outcome.deadlock_report()),
            ));
            return out;
        }
        Verdict::Budget if rr.outcome.progress_since_last_window => {
            // still delivering batches when the budget ran out: a long run, not a verdict
            // (counted as "runs_out_of_budget" in the evidence) - unless a loop has already gone
            // past its iteration bound: that job would never end
            for m in rr.meta.iter().filter(|m| m.pos == "loophead") {
                let Some(l) = loop_at(&sc.steps, &m.path) else { continue };
                // a nested loop runs once per round of every enclosing loop
                let mut bound = l.rounds + 1;
                let mut k = m.path.len();
                while k > 2 {
                    k -= 2;
                    match loop_at(&sc.steps, &m.path[..k]) {
                        Some(o) => bound = bound.saturating_mul(o.rounds + 1),
                        None => {
                            bound = usize::MAX;
                            break;
                        }
                    }
                }
                for ((p, c), hist) in rr.rec.probes.iter() {
                    if *p != m.id {
                        continue;
                    }
                    let rounds = hist.iter().filter(|r| r.kind == K_FAR).count();
                    if rounds > bound {
                        out.push(viol(
                            "C04",
                            "loop-exceeds-bound",
                            format!("the loop of step {} is bounded by {} iterations; replica {:?} of its head has gone through {} when the step budget ran out", m.path[0], l.rounds, c, rounds),
                        ));
                        return out;
                    }
                }
            }
            return out;
        }
        Verdict::Budget => {
            out.push(viol(
                "C04",
                "no-termination-within-budget",
                format!(
                    "job did not terminate within {} scheduling steps / {} ns of virtual time; busiest unfinished threads:\n{}",
                    rr.outcome.steps,
                    rr.outcome.vtime_ns,
                    rr.outcome.budget_report()
                ),
            ));
            return out;
        }
        _ => {}
    }
    for h in &rr.rec.hosts {
        if let Some(p) = &h.panicked {
            out.push(viol("C04", "host-panic", format!("execute_blocking panicked on host {}: {}", h.host, first_line(p))));
        }
    }
    for t in &rr.outcome.threads {
        if !t.finished {
            out.push(viol("C04", "thread-alive", format!("thread {} still alive after all hosts returned", t.name)));
        }
    }
    if !out.is_empty() {
        return out;
    }
    // every sink completed exactly once, exactly on the hosts that own a replica of it
    let hosts = sc.layout.hosts() as u64;
    let mut sid = 0u32;
    collect_sinks(&sc.steps, &mut |kind| {
        for h in 0..hosts {
            let v = rr.rec.sinks.get(&(sid, h));
            let owns = match kind {
                SinkKind::CollectVecAll | SinkKind::ForEach | SinkKind::CollectAll | SinkKind::CollectChannelParallel => true,
                _ => h == 0,
            };
            let has = !matches!(v, Some(SinkValue::None) | None);
            if owns && !has {
                out.push(viol("C04", "sink-incomplete", format!("sink {} ({:?}) yields no result on host {}", sid, kind, h)));
            }
            if !owns && has && kind != SinkKind::CollectChannel {
                out.push(viol("C04", "sink-on-wrong-host", format!("sink {} ({:?}) yields a result on host {} which owns no replica of it", sid, kind, h)));
            }
        }
        sid += 1;
    });
    out
}

/// the loop spec at a (top-level) step path
/// the loop a probe path points at: `[si]` at the top level, `[si, 10000 + bi, 0, ...]` for a
/// loop that is step `bi` of the body of the loop at `si` (and so on for deeper nesting)
pub fn loop_at<'a>(steps: &'a [Step], path: &[usize]) -> Option<&'a LoopSpec> {
    let mut l = match steps.get(*path.first()?) {
        Some(Step::Loop(_, l)) => l,
        _ => return None,
    };
    let mut rest = &path[1..];
    while rest.len() >= 2 {
        let bi = rest[0].checked_sub(10000)?;
        l = match l.body.get(bi) {
            Some(Step::Loop(_, inner)) => inner,
            _ => return None,
        };
        rest = &rest[2..];
    }
    Some(l)
}

/// the step a probe path points at (`[si]`, or `[si, 10000 + bi, 0, ...]` inside loop bodies)
pub fn step_at<'a>(steps: &'a [Step], path: &[usize]) -> Option<&'a Step> {
    let mut st = steps.get(*path.first()?)?;
    let mut rest = &path[1..];
    while rest.len() >= 2 {
        let bi = rest[0].checked_sub(10000)?;
        st = match st {
            Step::Loop(_, l) => l.body.get(bi)?,
            _ => return None,
        };
        rest = &rest[2..];
    }
    Some(st)
}

pub fn first_line(s: &str) -> String {
    s.lines().next().unwrap_or("").chars().take(200).collect()
}

pub fn collect_sinks(steps: &[Step], f: &mut dyn FnMut(SinkKind)) {
    for st in steps {
        if let Step::Sink(_, k) = st {
            f(*k);
        }
    }
}

// ------------------------------------------------------------------------------------------
// C05
// ------------------------------------------------------------------------------------------

pub fn c05(sc: &Scenario, rr: &RunResult) -> Vec<Violation> {
    let mut out = vec![];
    let completed = rr.outcome.verdict == Verdict::Completed && !rr.rec.hosts.iter().any(|h| h.panicked.is_some());
    let reference = Interp::run(sc);
    out.extend(probe_expectations("C05", sc, rr, &reference));
    out.extend(flush_after_all_data(sc, rr));
    // count windows are the stateful operators whose per-iteration behaviour is fully determined
    // by the arrival history: all results before the FlushAndRestart, nothing carried over
    for v in crate::oracle2::c12(sc, rr) {
        out.push(viol("C05", "stateful/count-window", v.msg));
    }
    for ((pid, coord), hist) in &rr.rec.probes {
        // automaton for ((Item|Timestamped|Watermark|FlushBatch)* FlushAndRestart)+ Terminate
        let mut fars = 0usize;
        let mut since_far = 0usize; // data/watermark elements since the last FlushAndRestart
        let mut terminated = false;
        let meta = rr.meta.iter().find(|m| m.id == *pid);
        let where_ = meta.map(|m| format!("probe {} path {:?} pos {}", pid, m.path, m.pos)).unwrap_or_else(|| format!("probe {}", pid));
        for (i, r) in hist.iter().enumerate() {
            if terminated {
                out.push(viol("C05", "grammar/after-terminate", format!("{} at {:?}: {} after Terminate (event #{})", where_, coord, kind_name(r.kind), i)));
                break;
            }
            match r.kind {
                K_ITEM | K_TS | K_WM => since_far += 1,
                K_FB => {}
                K_FAR => {
                    fars += 1;
                    since_far = 0;
                }
                K_TERM => {
                    terminated = true;
                    if fars == 0 {
                        out.push(viol("C05", "grammar/terminate-without-flush", format!("{} at {:?}: Terminate before any FlushAndRestart", where_, coord)));
                    } else if since_far > 0 {
                        out.push(viol(
                            "C05",
                            "grammar/data-not-closed-by-flush",
                            format!("{} at {:?}: {} data/watermark elements after the last FlushAndRestart and before Terminate", where_, coord, since_far),
                        ));
                    }
                }
                _ => {}
            }
        }
        if completed && !terminated {
            out.push(viol("C05", "grammar/no-terminate", format!("{} at {:?}: the run completed but no Terminate was observed here", where_, coord)));
        }
        // number of iterations: outside loops exactly one
        if completed && terminated {
            if let Some(m) = meta {
                let in_loop = m.path.len() > 1 || m.pos.starts_with("loop");
                if !in_loop && fars != 1 {
                    out.push(viol("C05", "iterations/outside-loop", format!("{} at {:?}: {} FlushAndRestart outside any loop (expected 1)", where_, coord, fars)));
                }
            }
        }
    }
    out
}

// ------------------------------------------------------------------------------------------
// dispatcher
// ------------------------------------------------------------------------------------------

pub fn check(prop: &str, sc: &Scenario, rr: &RunResult) -> Vec<Violation> {
    let mut v = check_inner(prop, sc, rr);
    v.retain(|x| !x.class.ends_with("__inconclusive"));
    v
}

fn check_inner(prop: &str, sc: &Scenario, rr: &RunResult) -> Vec<Violation> {
    match prop {
        "C01" => c01(sc, rr),
        "C02" => c02(sc, rr),
        "C04" => c04(sc, rr),
        "C05" => c05(sc, rr),
        "C03" => c03(sc, rr),
        "C07" => c_generic("C07", sc, rr),
        "C08" => c_generic("C08", sc, rr),
        "C09" => c09(sc, rr),
        "C10" => c10(sc, rr),
        "C11" => c11(sc, rr),
        "C06" => {
            // a late element makes a downstream event-time window panic: the history up to the
            // crash shows the root cause, which is reported in preference to the crash
            let v = crate::oracle2::c06(sc, rr);
            if v.is_empty() {
                termination_as("C06", sc, rr)
            } else {
                v
            }
        }
        "C12" => with_termination("C12", sc, rr, crate::oracle2::c12),
        "C13" => with_termination("C13", sc, rr, crate::oracle2::c13),
        "C14" => with_termination("C14", sc, rr, crate::oracle2::c14),
        "C15" => crate::oracle3::c15(sc, rr),
        "C18" => crate::oracle3::c18(sc, rr),
        "C19" => crate::oracle3::c19(sc, rr),
        "C20" => crate::oracle3::c20(sc, rr),
        "C16" => with_termination("C16", sc, rr, crate::oracle2::c16),
        "C17" => with_termination("C17", sc, rr, crate::oracle2::c17),
        _ => vec![],
    }
}

// ------------------------------------------------------------------------------------------
// generic: what every "out" probe saw, iteration by iteration, against the reference
// ------------------------------------------------------------------------------------------

/// data elements (id, key, v) seen at a probe, split into iterations by FlushAndRestart, merged
/// over all replicas
pub fn probe_iterations(rec: &Recorder, pid: u32) -> Vec<Vec<(u64, u16, i64, i64)>> {
    let mut iters: Vec<Vec<(u64, u16, i64, i64)>> = Vec::new();
    for ((p, _c), hist) in &rec.probes {
        if *p != pid {
            continue;
        }
        let mut i = 0usize;
        for r in hist {
            match r.kind {
                K_ITEM | K_TS => {
                    while iters.len() <= i {
                        iters.push(vec![]);
                    }
                    // the stream element's timestamp is compared only where there is one
                    iters[i].push((r.id, r.key, r.v, if r.kind == K_TS { r.ts } else { i64::MIN }));
                }
                K_FAR => {
                    while iters.len() <= i {
                        iters.push(vec![]);
                    }
                    i += 1;
                }
                _ => {}
            }
        }
    }
    for it in iters.iter_mut() {
        it.sort();
    }
    iters
}

pub fn probe_expectations(prop: &str, sc: &Scenario, rr: &RunResult, reference: &RefResult) -> Vec<Violation> {
    let mut out = vec![];
    let completed = rr.outcome.verdict == Verdict::Completed && !rr.rec.hosts.iter().any(|h| h.panicked.is_some());
    if !completed {
        return out;
    }
    let _ = sc;
    for m in &rr.meta {
        if m.pos != "out" {
            continue;
        }
        let Some(exp) = reference.expect.get(&(m.path.clone(), m.out)) else {
            continue;
        };
        if reference.unpredictable_loops.iter().any(|l| m.path.starts_with(l)) {
            continue;
        }
        let got = probe_iterations(&rr.rec, m.id);
        // trailing empty iterations carry no information when the reference has none either
        let n = exp.len().max(got.len());
        for i in 0..n {
            let e = exp.get(i);
            let g = got.get(i).cloned().unwrap_or_default();
            match e {
                Some(None) => continue,
                Some(Some(ev)) => {
                    // elements observed without a timestamp are compared without it
                    let timestamped = g.iter().any(|x| x.3 != i64::MIN);
                    let mut want: Vec<(u64, u16, i64, i64)> = ev
                        .iter()
                        .map(|e| (e.id, e.key, e.v, if timestamped { e.ts } else { i64::MIN }))
                        .collect();
                    want.sort();
                    let g: Vec<(u64, u16, i64, i64)> = if timestamped {
                        g
                    } else {
                        g.into_iter().map(|x| (x.0, x.1, x.2, i64::MIN)).collect()
                    };
                    if want != g {
                        let gs: BTreeSet<_> = g.iter().collect();
                        let ws: BTreeSet<_> = want.iter().collect();
                        let extra: Vec<_> = gs.difference(&ws).take(3).collect();
                        let missing: Vec<_> = ws.difference(&gs).take(3).collect();
                        out.push(viol(
                            prop,
                            "step-output",
                            format!(
                                "probe {} (step path {:?} output {}) iteration {}: saw {} elements, reference has {}; e.g. unexpected {:?}, missing {:?}",
                                m.id, m.path, m.out, i, g.len(), want.len(), extra, missing
                            ),
                        ));
                        break;
                    }
                }
                None => {
                    // only meaningful when the reference could predict every iteration here
                    if exp.iter().all(|x| x.is_some()) && !g.is_empty() {
                        out.push(viol(
                            prop,
                            "extra-iteration",
                            format!("probe {} (step path {:?}): data in iteration {} but the reference has only {} iterations here", m.id, m.path, i, exp.len()),
                        ));
                        break;
                    }
                }
            }
        }
        if exp.iter().all(|x| x.is_some()) && got.len() > exp.len() + 1 {
            out.push(viol(
                prop,
                "iteration-count",
                format!("probe {} (step path {:?}): {} iterations observed, reference has {}", m.id, m.path, got.len(), exp.len()),
            ));
        }
    }
    out
}


// ------------------------------------------------------------------------------------------
// C10 loops, C11 side inputs
// ------------------------------------------------------------------------------------------

pub fn termination_as(prop: &str, sc: &Scenario, rr: &RunResult) -> Vec<Violation> {
    if rr.outcome.verdict == Verdict::Completed && !rr.rec.hosts.iter().any(|h| h.panicked.is_some()) {
        return vec![];
    }
    let v: Vec<Violation> = c04(sc, rr)
        .into_iter()
        .map(|v| viol(prop, &format!("no-termination-{}", v.class.trim_start_matches("C04/")), v.msg))
        .collect();
    if v.is_empty() {
        // out of budget while still making progress: nothing can be said about this run
        // (the marker stops the caller and is removed by `check`)
        return vec![viol(prop, "__inconclusive", String::new())];
    }
    v
}

pub fn c10(sc: &Scenario, rr: &RunResult) -> Vec<Violation> {
    let mut out = termination_as("C10", sc, rr);
    if !out.is_empty() {
        return out;
    }
    let reference = Interp::run(sc);
    out.extend(check_sinks("C10", sc, rr, &reference, false));
    out.extend(probe_expectations("C10", sc, rr, &reference));
    out.extend(crate::oracle2::replay_refeeds("C10", sc, rr, false));
    // every read of the loop state inside the body: exactly the state produced by the previous round
    for o in &rr.rec.state_obs {
        if reference.unpredictable_loops.contains(&o.loop_path) {
            continue;
        }
        let Some(states) = reference.loop_states_by_path.get(&o.loop_path) else { continue };
        // a reader inside a nested loop counts that loop's rounds: map them to the outer round
        let mut o = o.clone();
        if let Some(ip) = &o.inner_path {
            if reference.unpredictable_loops.contains(ip) {
                continue;
            }
            let Some(per_outer) = reference.inner_rounds.get(ip) else { continue };
            let mut acc = 0u64;
            let mut outer = None;
            for (k, r) in per_outer.iter().enumerate() {
                if o.true_round < acc + *r as u64 {
                    outer = Some(k as u64);
                    break;
                }
                acc += *r as u64;
            }
            match outer {
                Some(k) => o.true_round = k,
                None => continue, // more inner rounds than predicted: reported by the step outputs
            }
        }
        let o = &o;
        let want = states.get(o.true_round as usize);
        match want {
            Some((r, acc)) => {
                if o.seen_round != *r || o.seen_acc != *acc {
                    let class = if o.seen_round < *r {
                        if o.inner_path.is_some() {
                            "stale-outer-state-in-nested-body"
                        } else {
                            "stale-state"
                        }
                    } else if o.seen_round > *r {
                        "state-from-the-future"
                    } else {
                        "wrong-state"
                    };
                    out.push(viol(
                        "C10",
                        class,
                        format!(
                            "loop at step {:?}{}: replica {:?} processed an element of round {} while reading state (round {}, acc {}); the state produced by round {} is (round {}, acc {})",
                            o.loop_path,
                            o.inner_path.as_ref().map(|p| format!(" (read inside the nested loop at {:?})", p)).unwrap_or_default(),
                            o.coord, o.true_round, o.seen_round, o.seen_acc, o.true_round as i64 - 1, r, acc
                        ),
                    ));
                    break;
                }
            }
            None => {
                out.push(viol(
                    "C10",
                    "extra-round",
                    format!("loop at step {:?}: replica {:?} executed round {} but the loop must stop after {} rounds", o.loop_path, o.coord, o.true_round, states.len()),
                ));
                break;
            }
        }
    }
    out
}

pub fn c11(sc: &Scenario, rr: &RunResult) -> Vec<Violation> {
    let mut out = termination_as("C11", sc, rr);
    if !out.is_empty() {
        return out;
    }
    let reference = Interp::run(sc);
    out.extend(check_sinks("C11", sc, rr, &reference, false));
    out.extend(probe_expectations("C11", sc, rr, &reference));
    // the outside stream's end is propagated once and the protocol holds downstream of the merge
    for v in c05(sc, rr) {
        if v.class.starts_with("C05/grammar") {
            out.push(viol("C11", &v.class.replace("C05/", "protocol-"), v.msg));
        }
    }
    // weak zips (order not determined): pair count and one-to-one use per iteration
    out.extend(weak_zip_checks("C11", sc, rr));
    out
}

/// zip steps whose pairing the reference cannot predict: exactly min(|a|,|b|) pairs per
/// iteration and no element used twice
pub fn weak_zip_checks(prop: &str, sc: &Scenario, rr: &RunResult) -> Vec<Violation> {
    let mut out = vec![];
    fn visit(steps: &[Step], prefix: &[usize], in_loop: bool, f: &mut dyn FnMut(&[usize], usize, usize)) {
        for (si, st) in steps.iter().enumerate() {
            let mut p = prefix.to_vec();
            p.push(si);
            match st {
                Step::Bin(a, b, BinOp::Zip) => f(&p, *a, *b),
                Step::Loop(_, l) => {
                    for (bi, bst) in l.body.iter().enumerate() {
                        let mut bp = p.clone();
                        bp.push(10_000 + bi);
                        visit(std::slice::from_ref(bst), &bp, true, f);
                    }
                }
                _ => {}
            }
        }
        let _ = in_loop;
    }
    let mut zips: Vec<Vec<usize>> = vec![];
    visit(&sc.steps, &[], false, &mut |p, _a, _b| zips.push(p.to_vec()));
    for path in zips {
        let Some(qm) = rr.meta.iter().find(|m| m.path == path && m.pos == "out") else { continue };
        let (Some(lm), Some(rm)) = (
            rr.meta.iter().find(|m| m.path == path && m.pos == "preL"),
            rr.meta.iter().find(|m| m.path == path && m.pos == "preR"),
        ) else {
            continue;
        };
        let iters = probe_iterations(&rr.rec, qm.id);
        let lin = probe_iterations(&rr.rec, lm.id);
        let rin = probe_iterations(&rr.rec, rm.id);
        // a side input is recorded once (outside the loop) and presented in every round
        let input_of = |v: &Vec<Vec<(u64, u16, i64, i64)>>, i: usize| -> BTreeMap<u64, usize> {
            let it = if v.len() <= 1 && iters.len() > 1 { v.first() } else { v.get(i) };
            let mut m = BTreeMap::new();
            for x in it.into_iter().flatten() {
                *m.entry(x.0).or_insert(0usize) += 1;
            }
            m
        };
        for (i, it) in iters.iter().enumerate() {
            let (la, ra) = (input_of(&lin, i), input_of(&rin, i));
            let mut lu: BTreeMap<u64, usize> = BTreeMap::new();
            let mut ru: BTreeMap<u64, usize> = BTreeMap::new();
            for (id, _k, v, _) in it {
                *lu.entry(*id).or_default() += 1;
                *ru.entry(*v as u64).or_default() += 1;
            }
            for (id, n) in &lu {
                if *n > la.get(id).copied().unwrap_or(0) {
                    out.push(viol(prop, "zip-element-used-twice", format!("zip at step {:?} iteration {}: left element {:x} appears in {} pairs but only {} times in the input", path, i, id, n, la.get(id).copied().unwrap_or(0))));
                    return out;
                }
            }
            for (id, n) in &ru {
                if *n > ra.get(id).copied().unwrap_or(0) {
                    out.push(viol(prop, "zip-element-used-twice", format!("zip at step {:?} iteration {}: right element {:x} appears in {} pairs but only {} times in the input", path, i, id, n, ra.get(id).copied().unwrap_or(0))));
                    return out;
                }
            }
        }
    }
    out
}


/// sinks and every step output against the reference, plus termination
pub fn c_generic(prop: &str, sc: &Scenario, rr: &RunResult) -> Vec<Violation> {
    let mut out = termination_as(prop, sc, rr);
    if !out.is_empty() {
        return out;
    }
    let reference = Interp::run(sc);
    out.extend(check_sinks(prop, sc, rr, &reference, false));
    out.extend(probe_expectations(prop, sc, rr, &reference));
    out
}

pub fn c09(sc: &Scenario, rr: &RunResult) -> Vec<Violation> {
    let mut out = c_generic("C09", sc, rr);
    if !out.is_empty() {
        return out;
    }
    out.extend(weak_zip_checks("C09", sc, rr));
    // zip: exactly min(|a|, |b|) pairs, from the two inputs
    for (si, st) in sc.steps.iter().enumerate() {
        match st {
            Step::Bin(_, _, BinOp::Zip) => {
                let (Some(l), Some(r), Some(q)) = (
                    rr.meta.iter().find(|m| m.path == [si] && m.pos == "preL"),
                    rr.meta.iter().find(|m| m.path == [si] && m.pos == "preR"),
                    rr.meta.iter().find(|m| m.path == [si] && m.pos == "out"),
                ) else {
                    continue;
                };
                let li = probe_iterations(&rr.rec, l.id).into_iter().next().unwrap_or_default();
                let ri = probe_iterations(&rr.rec, r.id).into_iter().next().unwrap_or_default();
                let qi = probe_iterations(&rr.rec, q.id).into_iter().next().unwrap_or_default();
                if qi.len() != li.len().min(ri.len()) {
                    out.push(viol("C09", "zip-pair-count", format!("zip at step {}: {} pairs from inputs of {} and {} elements", si, qi.len(), li.len(), ri.len())));
                }
                let lids: BTreeSet<u64> = li.iter().map(|x| x.0).collect();
                let rids: BTreeSet<u64> = ri.iter().map(|x| x.0).collect();
                for (id, _, v, _) in &qi {
                    if !lids.contains(id) || !rids.contains(&(*v as u64)) {
                        out.push(viol("C09", "zip-foreign-element", format!("zip at step {}: pair ({:x}, {:x}) does not come from the two inputs", si, id, v)));
                        break;
                    }
                }
            }
            Step::Un(_, UnOp::Broadcast) => {
                // every replica of the downstream block sees every element exactly once
                let (Some(p), Some(q)) = (
                    rr.meta.iter().find(|m| m.path == [si] && m.pos == "pre"),
                    rr.meta.iter().find(|m| m.path == [si] && m.pos == "start"),
                ) else {
                    continue;
                };
                let all = probe_iterations(&rr.rec, p.id).into_iter().next().unwrap_or_default();
                for ((pid, c), hist) in &rr.rec.probes {
                    if *pid != q.id {
                        continue;
                    }
                    let mut got: Vec<(u64, u16, i64, i64)> = hist.iter().filter(|r| r.kind <= K_TS).map(|r| (r.id, r.key, r.v, i64::MIN)).collect();
                    got.sort();
                    let mut want = all.clone();
                    for w in want.iter_mut() {
                        w.3 = i64::MIN;
                    }
                    if got != want {
                        out.push(viol("C09", "broadcast", format!("broadcast at step {}: replica {:?} received {} elements, the stream has {}", si, c, got.len(), want.len())));
                        break;
                    }
                }
            }
            _ => {}
        }
    }
    out
}


// ------------------------------------------------------------------------------------------
// C03 routing per connection kind
// ------------------------------------------------------------------------------------------

/// id -> coords at which a probe saw it
fn where_seen(rec: &Recorder, pid: u32) -> BTreeMap<u64, Vec<CoordT>> {
    let mut m: BTreeMap<u64, Vec<CoordT>> = BTreeMap::new();
    for ((p, c), hist) in &rec.probes {
        if *p == pid {
            for r in hist.iter().filter(|r| r.kind <= K_TS) {
                m.entry(r.id).or_default().push(*c);
            }
        }
    }
    m
}

fn probe_coords(rec: &Recorder, pid: u32) -> Vec<CoordT> {
    rec.probes.keys().filter(|(p, _)| *p == pid).map(|(_, c)| *c).collect()
}

pub fn c03(sc: &Scenario, rr: &RunResult) -> Vec<Violation> {
    let mut out = termination_as("C03", sc, rr);
    if !out.is_empty() {
        return out;
    }
    // (1) per boundary kind
    for (si, st) in sc.steps.iter().enumerate() {
        let path = vec![si];
        let find = |pos: &str| rr.meta.iter().find(|m| m.path == path && m.pos == pos);
        match st {
            Step::Un(_, UnOp::Shuffle) | Step::Un(_, UnOp::Repl(_)) | Step::Un(_, UnOp::RepartBy(..)) => {
                let (Some(p), Some(q)) = (find("pre"), find("start")) else { continue };
                if let Step::Un(_, UnOp::RepartBy(_, m)) = st {
                    // the replica depends only on the value of the user's partition function
                    let m = (*m).max(1);
                    let mut part_at: BTreeMap<u16, BTreeSet<CoordT>> = BTreeMap::new();
                    for ((pid, c), hist) in &rr.rec.probes {
                        if *pid == q.id {
                            for r in hist.iter().filter(|r| r.kind <= K_TS) {
                                part_at.entry(r.key % m).or_default().insert(*c);
                            }
                        }
                    }
                    for (k, cs) in &part_at {
                        if cs.len() > 1 {
                            out.push(viol("C03", "groupby/key-split", format!("step {} ({}): elements with partition value {} were delivered to {} replicas {:?}", si, crate::plan::step_brief(st), k, cs.len(), cs)));
                            return out;
                        }
                    }
                }
                let a = where_seen(&rr.rec, p.id);
                let b = where_seen(&rr.rec, q.id);
                let prod = probe_coords(&rr.rec, p.id);
                let cons = probe_coords(&rr.rec, q.id);
                let forward = matches!(st, Step::Un(_, UnOp::Repl(_)));
                for (id, from) in &a {
                    if from.len() != 1 {
                        continue; // ids are not unique here (after a broadcast): nothing to say
                    }
                    let to = b.get(id).cloned().unwrap_or_default();
                    if to.len() != 1 {
                        out.push(viol(
                            "C03",
                            if forward { "forward/not-exactly-one" } else { "shuffle/not-exactly-one" },
                            format!("step {} ({}): element {:x} produced at {:?} was delivered to {} replicas {:?}", si, crate::plan::step_brief(st), id, from[0], to.len(), to),
                        ));
                        return out;
                    }
                    if forward && cons.len() == prod.len() && (to[0].1, to[0].2) != (from[0].1, from[0].2) {
                        out.push(viol(
                            "C03",
                            "forward/not-same-index",
                            format!("step {} ({}): element {:x} produced at {:?} was delivered to {:?} although the consumer has the same-index replica", si, crate::plan::step_brief(st), id, from[0], to[0]),
                        ));
                        return out;
                    }
                }
                for id in b.keys() {
                    if !a.contains_key(id) {
                        out.push(viol("C03", "foreign-element", format!("step {}: element {:x} arrived without having been produced", si, id)));
                        return out;
                    }
                }
            }
            Step::Un(_, UnOp::Gb(..)) | Step::Un(_, UnOp::Win(..)) | Step::Un(_, UnOp::Extra(ExtraOp::KeyedChain(..))) => {
                let (Some(p), Some(q)) = (find("pre"), find("start")) else { continue };
                // key -> replica must be a function, across all producers
                let mut key_at: BTreeMap<u16, BTreeSet<CoordT>> = BTreeMap::new();
                let mut n_out = 0usize;
                for ((pid, c), hist) in &rr.rec.probes {
                    if *pid == q.id {
                        for r in hist.iter().filter(|r| r.kind <= K_TS) {
                            key_at.entry(r.key).or_default().insert(*c);
                            n_out += 1;
                        }
                    }
                }
                for (k, cs) in &key_at {
                    if cs.len() > 1 {
                        out.push(viol("C03", "groupby/key-split", format!("step {} ({}): key {} was delivered to {} replicas {:?}", si, crate::plan::step_brief(st), k, cs.len(), cs)));
                        return out;
                    }
                }
                // two-phase forms pre-aggregate before the boundary: counts differ by design
                let two_phase = matches!(
                    st,
                    Step::Un(_, UnOp::Gb(GbForm::FoldAssoc, _))
                        | Step::Un(_, UnOp::Gb(GbForm::ReduceAssoc, _))
                        | Step::Un(_, UnOp::Gb(GbForm::Sum, _))
                        | Step::Un(_, UnOp::Gb(GbForm::Count, _))
                        | Step::Un(_, UnOp::Gb(GbForm::Avg, _))
                        | Step::Un(_, UnOp::Gb(GbForm::MinEl, _))
                        | Step::Un(_, UnOp::Gb(GbForm::MaxEl, _))
                );
                if !two_phase {
                    let n_in: usize = where_seen(&rr.rec, p.id).values().map(|v| v.len()).sum();
                    if n_in != n_out {
                        out.push(viol("C03", "groupby/not-exactly-one", format!("step {} ({}): {} elements produced, {} delivered", si, crate::plan::step_brief(st), n_in, n_out)));
                        return out;
                    }
                }
            }
            Step::Bin(_, _, BinOp::Merge) | Step::Bin(_, _, BinOp::Zip) => {
                let (Some(l), Some(r), Some(q)) = (find("preL"), find("preR"), find("start")) else { continue };
                let cons = probe_coords(&rr.rec, q.id);
                let b = where_seen(&rr.rec, q.id);
                // the two inputs may carry the same lineage ids (branches of one split): compare
                // the combined multisets of producing and receiving replica indexes per id
                let al = where_seen(&rr.rec, l.id);
                let ar = where_seen(&rr.rec, r.id);
                let same_shape = cons.len() > 1 && probe_coords(&rr.rec, l.id).len() == cons.len() && probe_coords(&rr.rec, r.id).len() == cons.len();
                let ids: BTreeSet<u64> = al.keys().chain(ar.keys()).cloned().collect();
                for id in ids {
                    let mut from: Vec<(u64, u64)> = al.get(&id).into_iter().flatten().chain(ar.get(&id).into_iter().flatten()).map(|c| (c.1, c.2)).collect();
                    let mut to: Vec<(u64, u64)> = b.get(&id).into_iter().flatten().map(|c| (c.1, c.2)).collect();
                    from.sort();
                    to.sort();
                    if matches!(st, Step::Bin(_, _, BinOp::Merge)) && to.len() != from.len() {
                        out.push(viol("C03", "forward/not-exactly-one", format!("step {} (merge): element {:x} was produced {} times (at replica indexes {:?}) and delivered {} times (at {:?})", si, id, from.len(), from, to.len(), to)));
                        return out;
                    }
                    if same_shape && to.len() == from.len() && to != from {
                        out.push(viol("C03", "forward/not-same-index", format!("step {} ({}): element {:x} produced at replica indexes {:?} was delivered to {:?}", si, crate::plan::step_brief(st), id, from, to)));
                        return out;
                    }
                }
            }
            Step::Bin(_, _, op) => {
                // joins: all results of one key are produced on one replica
                let Some(q) = find("out") else { continue };
                let mut key_at: BTreeMap<u16, BTreeSet<CoordT>> = BTreeMap::new();
                for ((pid, c), hist) in &rr.rec.probes {
                    if *pid == q.id {
                        for r in hist.iter().filter(|r| r.kind <= K_TS) {
                            key_at.entry(r.key).or_default().insert(*c);
                        }
                    }
                }
                let bcast = matches!(op, BinOp::Join(_, JoinForm::BcastHash) | BinOp::Join(_, JoinForm::BcastSortMerge) | BinOp::IntervalJoin { keyed: false, .. });
                if !bcast {
                    for (k, cs) in &key_at {
                        if cs.len() > 1 {
                            out.push(viol("C03", "groupby/join-sides-split", format!("step {} ({}): results for key {} were produced on {} replicas {:?}: equal keys of the two inputs did not meet on one replica", si, crate::plan::step_brief(st), k, cs.len(), cs)));
                            return out;
                        }
                    }
                }
            }
            _ => {}
        }
    }
    // the results themselves (a key split between replicas shows up as missing join rows or as
    // two partial aggregates)
    let reference = Interp::run(sc);
    out.extend(check_sinks("C03", sc, rr, &reference, false));
    out.extend(probe_expectations("C03", sc, rr, &reference));
    if !out.is_empty() {
        return out;
    }
    // (2) control elements reach every connected replica: every edge of the execution graph
    // carried the control elements its producer emitted, in order
    let Some(g0) = rr.rec.graphs.iter().find(|g| g.host == 0) else { return out };
    for (from, to, fragile) in &g0.edges {
        if *fragile {
            continue;
        }
        let key = LinkKey { from: *from, to: *to, prev_block: from.0 };
        let Some(l) = rr.rec.links.get(&key) else {
            out.push(viol("C03", "control/link-without-traffic", format!("connected replicas {:?} -> {:?}: nothing was ever sent on this link (not even the end-of-stream markers)", from, to)));
            return out;
        };
        let ctrl: Vec<(u8, i64)> = l.sent.iter().filter(|e| matches!(e.kind, K_WM | K_FAR | K_TERM)).map(|e| (e.kind, e.ts)).collect();
        // all links of this producer towards the same downstream block must agree
        for (k2, l2) in rr.rec.links.iter().filter(|(k2, _)| k2.from == *from && k2.to.0 == to.0 && k2.prev_block == from.0) {
            let c2: Vec<(u8, i64)> = l2.sent.iter().filter(|e| matches!(e.kind, K_WM | K_FAR | K_TERM)).map(|e| (e.kind, e.ts)).collect();
            if c2 != ctrl {
                out.push(viol(
                    "C03",
                    "control/not-broadcast",
                    format!("producer {:?}: the control elements sent to {:?} ({} markers) differ from those sent to {:?} ({} markers)", from, to, ctrl.len(), k2.to, c2.len()),
                ));
                return out;
            }
        }
        if !ctrl.iter().any(|c| c.0 == K_FAR) || ctrl.last().map(|c| c.0) != Some(K_TERM) {
            out.push(viol("C03", "control/missing-marker", format!("link {:?} -> {:?}: control elements sent were {:?}", from, to, ctrl.iter().map(|c| kind_name(c.0)).collect::<Vec<_>>())));
            return out;
        }
    }
    out
}


/// A block input forwards FlushAndRestart #i only after all the data its upstream replicas sent
/// for iteration i: at the probe right after `Start`, the number of data elements seen before the
/// i-th marker equals what the incoming data links carried in their i-th iteration (a cached side
/// input, which is sent once, counts in every iteration).
pub fn flush_after_all_data(sc: &Scenario, rr: &RunResult) -> Vec<Violation> {
    let mut out = vec![];
    if rr.outcome.verdict != Verdict::Completed || rr.rec.hosts.iter().any(|h| h.panicked.is_some()) {
        return out;
    }
    let _ = sc;
    for m in rr.meta.iter().filter(|m| m.pos == "start") {
        // zip emits pairs, not elements
        let is_zip = rr.meta.iter().any(|x| x.path == m.path && x.pos == "preL") && {
            fn step_at<'a>(steps: &'a [Step], path: &[usize]) -> Option<&'a Step> {
                let (first, rest) = path.split_first()?;
                let idx = if *first >= 10_000 { return None } else { *first };
                let st = steps.get(idx)?;
                if rest.is_empty() {
                    return Some(st);
                }
                match st {
                    Step::Loop(_, l) => {
                        let (b, rest2) = rest.split_first()?;
                        let bst = l.body.get(b.checked_sub(10_000)?)?;
                        // body steps are addressed as [.., 10000+bi, 0, ...]
                        let rest3 = rest2.split_first().map(|x| x.1).unwrap_or(&[]);
                        if rest3.is_empty() {
                            Some(bst)
                        } else {
                            step_at(std::slice::from_ref(bst), &[&[0usize][..], rest3].concat())
                        }
                    }
                    _ => None,
                }
            }
            matches!(step_at(&sc.steps, &m.path), Some(Step::Bin(_, _, BinOp::Zip)) | None)
        };
        if is_zip {
            continue;
        }
        let prev = crate::oracle2::upstream_blocks(rr, &m.path);
        for ((pid, c), hist) in &rr.rec.probes {
            if *pid != m.id {
                continue;
            }
            // data per iteration at the probe
            let mut got: Vec<usize> = vec![0];
            for r in hist {
                match r.kind {
                    K_ITEM | K_TS => *got.last_mut().unwrap() += 1,
                    K_FAR => got.push(0),
                    _ => {}
                }
            }
            let n_iter = got.len() - 1;
            if n_iter == 0 {
                continue;
            }
            let mut want = vec![0usize; n_iter];
            let mut usable = true;
            for (k, l) in rr.rec.links.iter().filter(|(k, _)| k.to == *c && prev.contains(&k.prev_block)) {
                let mut per: Vec<usize> = vec![0];
                for e in &l.sent {
                    match e.kind {
                        K_ITEM | K_TS => *per.last_mut().unwrap() += 1,
                        K_FAR => per.push(0),
                        _ => {}
                    }
                }
                let li = per.len() - 1;
                if li == n_iter {
                    for i in 0..n_iter {
                        want[i] += per[i];
                    }
                } else if li == 1 {
                    // sent once, presented in every iteration (cached side input)
                    for w in want.iter_mut() {
                        *w += per[0];
                    }
                } else {
                    let _ = k;
                    usable = false;
                }
            }
            if !usable {
                continue;
            }
            for i in 0..n_iter {
                if got[i] != want[i] {
                    out.push(viol(
                        "C05",
                        "flush-before-all-data",
                        format!(
                            "probe {} (after Start, step {:?}) at {:?}: FlushAndRestart #{} was forwarded after {} data elements, but the upstream replicas sent {} for that iteration",
                            m.id, m.path, c, i, got[i], want[i]
                        ),
                    ));
                    return out;
                }
            }
        }
    }
    out
}


/// a job that crashes or hangs has lost everything: report that first (with the classes of C04,
/// so that the same known findings apply), then the property's own oracle
pub fn with_termination(prop: &str, sc: &Scenario, rr: &RunResult, f: fn(&Scenario, &RunResult) -> Vec<Violation>) -> Vec<Violation> {
    let t = termination_as(prop, sc, rr);
    if !t.is_empty() {
        return t;
    }
    f(sc, rr)
}
