mod driver;
mod dynop;
mod elem;
mod families;
mod gen;
mod gen2;
mod gen3;
mod gen4;
mod job;
mod known;
mod oracle;
mod oracle2;
mod oracle3;
mod plan;
mod probe;
mod rec;
mod refmodel;
mod run;
mod win;
mod worker;

fn usage() -> ! {
    eprintln!(
        "usage:\n  noirsim check <Cxx> [--tier quick|thorough] [--runs N] [--seed N]\n  noirsim replay <file>\n  noirsim worker\n  noirsim one <Cxx> <run> [--seed N] [--verbose]\n  noirsim selftest determinism [--runs N]"
    );
    std::process::exit(2)
}

fn main() {
    let args: Vec<String> = std::env::args().collect();
    if args.len() < 2 {
        usage();
    }
    // panics inside simulated threads are expected outcomes in some scenarios: keep stderr quiet
    // unless asked otherwise
    if std::env::var("VERIF_VERBOSE").is_err() {
        std::panic::set_hook(Box::new(|_| {}));
    }
    match args[1].as_str() {
        "worker" => worker::worker_main(),
        "check" => std::process::exit(driver::check_main(&args[2..])),
        "replay" => std::process::exit(driver::replay_main(&args[2..])),
        "one" => std::process::exit(driver::one_main(&args[2..])),
        "selftest" => std::process::exit(driver::selftest_main(&args[2..])),
        "stats" => std::process::exit(driver::stats_main(&args[2..])),
        _ => usage(),
    }
}
