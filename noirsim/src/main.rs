use renoir::prelude::*;
use simrt::{SimConfig, Tape};

fn main() {
    simrt::pin_process_to_cpu(0);
    let out = simrt::rt::run(SimConfig::default(), Tape::generate(1), Tape::generate(2), || {
        let env = StreamContext::new(RuntimeConfig::local(3).unwrap());
        let res = env
            .stream_par_iter(0..1000u64)
            .map(|x| x * 2)
            .shuffle()
            .group_by(|x| x % 7)
            .fold(0u64, |a, x| *a += x)
            .collect_vec();
        env.execute_blocking();
        let mut v = res.get().unwrap();
        v.sort();
        println!("{:?}", v);
    });
    println!("{:?} steps={} vtime={} switches={} threads={}", out.verdict, out.steps, out.vtime_ns, out.switches, out.threads.len());
}
