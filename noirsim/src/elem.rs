//! The one element type flowing through every generated pipeline, and the pure function families
//! shared by the job under test and the sequential reference interpreter.

use serde::{Deserialize, Serialize};

#[derive(Clone, Debug, Serialize, Deserialize, PartialEq, Eq, Hash, PartialOrd, Ord, Default)]
pub struct E {
    /// lineage id: unique per element at the sources, derived functionally afterwards
    pub id: u64,
    pub key: u16,
    pub v: i64,
    /// event time (0 when the stream carries no timestamps)
    pub ts: i64,
    pub pad: Vec<u8>,
}

impl E {
    pub fn new(id: u64, key: u16, v: i64) -> E {
        E {
            id,
            key,
            v,
            ts: 0,
            pad: Vec::new(),
        }
    }
}

#[inline]
pub fn mix(a: u64, b: u64) -> u64 {
    let mut z = a
        .wrapping_mul(0x9E37_79B9_7F4A_7C15)
        .wrapping_add(b.rotate_left(29))
        .wrapping_add(0x632B_E59B_D9B4_E019);
    z = (z ^ (z >> 30)).wrapping_mul(0xBF58_476D_1CE4_E5B9);
    z = (z ^ (z >> 27)).wrapping_mul(0x94D0_49BB_1331_11EB);
    z ^ (z >> 31)
}

#[derive(Clone, Copy, Debug, Serialize, Deserialize, PartialEq, Eq)]
pub enum MapFn {
    Add(i64),
    MulOdd(i64),
    Neg,
    /// new key = (|v| + c) mod m
    Rekey(u16, u16),
    XorId(u64),
}

impl MapFn {
    pub fn apply(&self, mut e: E) -> E {
        match *self {
            MapFn::Add(c) => e.v = e.v.wrapping_add(c),
            MapFn::MulOdd(c) => e.v = e.v.wrapping_mul(c | 1),
            MapFn::Neg => e.v = e.v.wrapping_neg(),
            MapFn::Rekey(m, c) => {
                e.key = ((e.v.unsigned_abs().wrapping_add(c as u64)) % (m.max(1) as u64)) as u16
            }
            MapFn::XorId(c) => e.id = mix(e.id, c),
        }
        e
    }
}

#[derive(Clone, Copy, Debug, Serialize, Deserialize, PartialEq, Eq)]
pub enum PredFn {
    VMod(i64, i64),
    KeyLt(u16),
    IdBit(u8),
    True,
    False,
}

impl PredFn {
    pub fn test(&self, e: &E) -> bool {
        match *self {
            PredFn::VMod(m, r) => e.v.rem_euclid(m.max(1)) != r,
            PredFn::KeyLt(k) => e.key < k,
            PredFn::IdBit(b) => (mix(e.id, 7) >> (b % 64)) & 1 == 1,
            PredFn::True => true,
            PredFn::False => false,
        }
    }
}

/// flat_map: each element yields 0..=3 derived elements
#[derive(Clone, Copy, Debug, Serialize, Deserialize, PartialEq, Eq)]
pub enum FlatFn {
    /// number of copies = (mix(id) % (n+1))
    Copies(u8),
    Twice,
}

impl FlatFn {
    pub fn apply(&self, e: E) -> Vec<E> {
        let n = match *self {
            FlatFn::Copies(n) => (mix(e.id, 3) % (n as u64 + 1)) as usize,
            FlatFn::Twice => 2,
        };
        (0..n)
            .map(|i| {
                let mut c = e.clone();
                c.id = mix(e.id, 100 + i as u64);
                c.v = e.v.wrapping_add(i as i64);
                c
            })
            .collect()
    }
}

/// associative-commutative aggregation functions over `v`
#[derive(Clone, Copy, Debug, Serialize, Deserialize, PartialEq, Eq)]
pub enum AggFn {
    Sum,
    Min,
    Max,
    Xor,
    Count,
}

impl AggFn {
    pub fn unit(&self) -> i64 {
        match self {
            AggFn::Sum | AggFn::Xor | AggFn::Count => 0,
            AggFn::Min => i64::MAX,
            AggFn::Max => i64::MIN,
        }
    }
    /// fold one element value into the accumulator
    pub fn step(&self, acc: i64, v: i64) -> i64 {
        match self {
            AggFn::Sum => acc.wrapping_add(v),
            AggFn::Min => acc.min(v),
            AggFn::Max => acc.max(v),
            AggFn::Xor => acc ^ v,
            AggFn::Count => acc.wrapping_add(1),
        }
    }
    /// combine two partial accumulators
    pub fn merge(&self, a: i64, b: i64) -> i64 {
        match self {
            AggFn::Sum | AggFn::Count => a.wrapping_add(b),
            AggFn::Min => a.min(b),
            AggFn::Max => a.max(b),
            AggFn::Xor => a ^ b,
        }
    }
    /// element-level combine used by reduce-style operators (AC on the whole element)
    pub fn combine(&self, a: &E, b: &E) -> E {
        E {
            id: a.id ^ b.id,
            key: a.key,
            v: match self {
                AggFn::Count => a.v.wrapping_add(b.v),
                f => f.merge(a.v, b.v),
            },
            ts: a.ts.max(b.ts),
            pad: Vec::new(),
        }
    }
}

pub const TAG_AGG: u64 = 0xA66;
pub const TAG_JOIN: u64 = 0x101;
pub const TAG_WIN: u64 = 0x717;

/// order-sensitive digest of a window's content: (count, chained hash of lineage ids)
pub fn chain(acc: i64, id: u64) -> i64 {
    mix(acc as u64, id) as i64
}
