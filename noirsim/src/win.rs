//! Window steps (count / event-time / processing-time / session / transaction).

use crate::dynop::*;
use crate::elem::*;
use crate::job::Builder;
use crate::plan::*;

pub fn build_window<'a>(
    _b: &mut Builder<'a>,
    _s: DS<E>,
    _kind: WinKind,
    _agg: WinAgg,
    _path: &[usize],
    _all: bool,
) -> DS<E> {
    unimplemented!("window steps are built in a later module revision")
}
