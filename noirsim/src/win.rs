//! Window steps (count / event-time / processing-time / session / transaction) and the value
//! encoding shared with the window oracles.

use std::ops::AddAssign;
use std::time::Duration;

use renoir::operator::window::{
    CountWindow, EventTimeWindow, ProcessingTimeWindow, SessionWindow, TransactionOp, TransactionWindow,
};

use crate::dynop::*;
use crate::elem::*;
use crate::job::{Builder, KeyedStreamProbe};
use crate::plan::*;

#[derive(Clone, Default)]
pub struct SumAcc(pub i64);

impl AddAssign<E> for SumAcc {
    fn add_assign(&mut self, e: E) {
        self.0 = self.0.wrapping_add(e.v);
    }
}

/// what a window over `group` (in arrival order) must produce under `agg`: (id, v)
pub fn win_value(agg: WinAgg, key: u16, group: &[(u64, i64)]) -> (u64, i64) {
    match agg {
        WinAgg::Chain | WinAgg::Members => {
            let mut h = 0i64;
            for (id, _) in group {
                h = chain(h, *id);
            }
            (mix(TAG_WIN, h as u64), group.len() as i64)
        }
        WinAgg::Count => (mix(TAG_WIN, key as u64), group.len() as i64),
        WinAgg::Sum => (
            mix(TAG_WIN, key as u64),
            group.iter().fold(0i64, |a, (_, v)| a.wrapping_add(*v)),
        ),
        WinAgg::Min => {
            let m = group.iter().min_by_key(|(id, v)| (*v, *id)).unwrap();
            (m.0, m.1)
        }
        WinAgg::Max => {
            let m = group.iter().max_by_key(|(id, v)| (*v, *id)).unwrap();
            (m.0, m.1)
        }
        WinAgg::First => group[0],
        WinAgg::Last => *group.last().unwrap(),
    }
}

pub fn tx_op(m: i64, after: Option<i64>, e: &E) -> TransactionOp {
    // v % m == 0 -> commit (now, or after ts+after); v % m == 1 -> discard; else continue
    match e.v.rem_euclid(m.max(2)) {
        0 => match after {
            Some(a) => TransactionOp::CommitAfter(e.ts + a),
            None => TransactionOp::Commit,
        },
        1 if m >= 4 => TransactionOp::Discard,
        _ => TransactionOp::Continue,
    }
}

macro_rules! agg_window {
    ($w:expr, $agg:expr) => {{
        let w = $w;
        match $agg {
            WinAgg::Chain => boxed(
                w.fold((0i64, 0i64), |acc: &mut (i64, i64), e: E| {
                    acc.0 += 1;
                    acc.1 = chain(acc.1, e.id);
                })
                .unkey()
                .map(|(k, (c, h))| E {
                    id: mix(TAG_WIN, h as u64),
                    key: k,
                    v: c,
                    ts: 0,
                    pad: vec![],
                }),
            ),
            WinAgg::Members => boxed(
                w.fold((0i64, 0i64, Vec::<u8>::new()), |acc: &mut (i64, i64, Vec<u8>), e: E| {
                    acc.0 += 1;
                    acc.1 = chain(acc.1, e.id);
                    acc.2.extend_from_slice(&e.id.to_le_bytes());
                })
                .unkey()
                .map(|(k, (c, h, ids))| E {
                    id: mix(TAG_WIN, h as u64),
                    key: k,
                    v: c,
                    ts: 0,
                    pad: ids,
                }),
            ),
            WinAgg::Count => boxed(w.count().unkey().map(|(k, c)| E {
                id: mix(TAG_WIN, k as u64),
                key: k,
                v: c as i64,
                ts: 0,
                pad: vec![],
            })),
            WinAgg::Sum => boxed(w.sum::<SumAcc>().unkey().map(|(k, s)| E {
                id: mix(TAG_WIN, k as u64),
                key: k,
                v: s.0,
                ts: 0,
                pad: vec![],
            })),
            WinAgg::Min => boxed(
                w.min_by_key(|e: &E| (e.v, e.id))
                    .unkey()
                    .map(|(k, e)| E { key: k, ts: 0, pad: vec![], ..e }),
            ),
            WinAgg::Max => boxed(
                w.max_by_key(|e: &E| (e.v, e.id))
                    .unkey()
                    .map(|(k, e)| E { key: k, ts: 0, pad: vec![], ..e }),
            ),
            WinAgg::First => boxed(w.first().unkey().map(|(k, e)| E { key: k, ts: 0, pad: vec![], ..e })),
            WinAgg::Last => boxed(
                w.fold(None, |acc: &mut Option<E>, e: E| *acc = Some(e))
                    .unkey()
                    .map(|(k, e)| {
                        let e = e.unwrap();
                        E { key: k, ts: 0, pad: vec![], ..e }
                    }),
            ),
        }
    }};
}

macro_rules! with_descr {
    ($k:expr, $kind:expr, $agg:expr) => {{
        let k = $k;
        match $kind {
            WinKind::Count { n, s, exact } => agg_window!(k.window(CountWindow::new(n, s, exact)), $agg),
            WinKind::EventTumbling { size } => agg_window!(k.window(EventTimeWindow::tumbling(size)), $agg),
            WinKind::EventSliding { size, slide } => {
                agg_window!(k.window(EventTimeWindow::sliding(size, slide)), $agg)
            }
            WinKind::Proc { size_us, slide_us } => agg_window!(
                k.window(ProcessingTimeWindow::sliding(
                    Duration::from_micros(size_us),
                    Duration::from_micros(slide_us)
                )),
                $agg
            ),
            WinKind::Session { gap_us } => {
                agg_window!(k.window(SessionWindow::new(Duration::from_micros(gap_us))), $agg)
            }
            WinKind::Tx { m, after } => {
                agg_window!(k.window(TransactionWindow::new(move |e: &E| tx_op(m, after, e))), $agg)
            }
        }
    }};
}

pub fn build_window<'a>(
    b: &mut Builder<'a>,
    s: DS<E>,
    kind: WinKind,
    agg: WinAgg,
    path: &[usize],
    all: bool,
) -> DS<E> {
    if all {
        // window_all = replication(One) + key_by(()) + window: map the unit key to key 0
        let s = b.probe_pub(s, path, 0, "pre");
        let k = s.replication(renoir::Replication::One).key_by(|_e: &E| 0u16);
        let k = boxed_keyed(k);
        let k = KeyedStreamProbe::probe(b, k, path, "start");
        with_descr!(k, kind, agg)
    } else {
        let s = b.probe_pub(s, path, 0, "pre");
        let k = boxed_keyed(s.group_by(|e| e.key));
        let k = KeyedStreamProbe::probe(b, k, path, "start");
        with_descr!(k, kind, agg)
    }
}
