//! One run = one job line in, one report line out. A worker process executes runs one after the
//! other; after a run that did not complete (its threads stay parked forever) it exits and the
//! driver starts a fresh one.

use std::collections::BTreeMap;
use std::io::{BufRead, Write};

use serde::{Deserialize, Serialize};
use simrt::rt::FK_NAMES;
use simrt::tape::mix;
use simrt::{Tape, Verdict};

use crate::families;
use crate::oracle::{self, Violation};
use crate::plan::Scenario;
use crate::run;

#[derive(Clone, Debug, Serialize, Deserialize, Default)]
pub struct Tapes {
    pub w: Vec<u32>,
    pub s: Vec<u32>,
    pub f: Vec<u32>,
}

#[derive(Clone, Debug, Serialize, Deserialize)]
pub struct Job {
    pub prop: String,
    pub seed: u64,
    pub run: u64,
    /// replay these tapes instead of generating
    pub tapes: Option<Tapes>,
    /// include tapes / decoded scenario in the report even when nothing was violated
    pub want_tapes: bool,
    pub want_scenario: bool,
    /// pin to this cpu (workers only)
    pub cpu: Option<usize>,
    /// evaluate this property's oracle instead of `prop`'s (the scenario still comes from
    /// `prop`'s generator)
    #[serde(default)]
    pub oracle: Option<String>,
    /// run exactly this scenario (witness scenarios of known findings) instead of generating one
    #[serde(default)]
    pub scenario: Option<Scenario>,
}

#[derive(Clone, Debug, Serialize, Deserialize, Default)]
pub struct Report {
    pub prop: String,
    pub run: u64,
    pub verdict: String,
    pub violations: Vec<Violation>,
    pub steps: u64,
    pub vtime_ns: u64,
    pub switches: u64,
    pub threads: usize,
    pub log_hash: u64,
    pub sched_hash: u64,
    pub workload_hash: u64,
    pub fired: BTreeMap<String, u64>,
    pub counters: BTreeMap<String, u64>,
    pub nontrivial: bool,
    pub brief: String,
    pub tapes: Option<Tapes>,
    pub scenario: Option<Scenario>,
    pub real_ms: f64,
    pub link_batches: u64,
    pub exiting: bool,
    pub harness_error: Option<String>,
    pub panics: Vec<String>,
}

pub fn prop_hash(p: &str) -> u64 {
    let mut h = 0xcbf2_9ce4_8422_2325u64;
    for b in p.bytes() {
        h ^= b as u64;
        h = h.wrapping_mul(0x0000_0100_0000_01B3);
    }
    h
}

pub fn fnv_bytes(bytes: &[u8]) -> u64 {
    let mut h = 0xcbf2_9ce4_8422_2325u64;
    for b in bytes {
        h ^= *b as u64;
        h = h.wrapping_mul(0x0000_0100_0000_01B3);
    }
    h
}

pub fn execute(job: &Job) -> Report {
    let t0 = std::time::Instant::now();
    let base = mix(mix(job.seed, prop_hash(&job.prop)), job.run);
    let wbase = mix(mix(job.seed, prop_hash(&job.prop)), families::workload_run(&job.prop, job.run));
    let (mut wt, st, ft) = match &job.tapes {
        Some(t) => (Tape::replay(t.w.clone()), Tape::replay(t.s.clone()), Tape::replay(t.f.clone())),
        None => (
            Tape::generate(mix(wbase, 1)),
            Tape::generate(mix(base, 2)),
            Tape::generate(mix(base, 3)),
        ),
    };
    let sc = match &job.scenario {
        Some(sc) => sc.clone(),
        None => families::generate(&job.prop, job.run, &mut wt),
    };
    let wtape = wt.consumed();
    let workload_hash = fnv_bytes(&serde_json::to_vec(&sc).unwrap());
    let rr = run::run_scenario(&sc, st, ft);
    let mut rep = Report {
        prop: job.prop.clone(),
        run: job.run,
        ..Default::default()
    };
    rep.verdict = format!("{:?}", rr.outcome.verdict);
    if rr.outcome.verdict == Verdict::Watchdog {
        rep.harness_error = Some(format!(
            "real-time watchdog fired (a blocking call escaped the simulator seams?)\n{}",
            rr.outcome.deadlock_report()
        ));
    } else {
        rep.violations = oracle::check(job.oracle.as_deref().unwrap_or(&job.prop), &sc, &rr);
    }
    if std::env::var("VERIF_DUMP").is_ok() {
        for m in &rr.meta {
            eprintln!("probe {} path {:?} out {} pos {}", m.id, m.path, m.out, m.pos);
        }
        for ((pid, c), h) in &rr.rec.probes {
            let s: Vec<String> = h
                .iter()
                .map(|r| match r.kind {
                    0 => format!("I{}", r.id % 1000),
                    1 => format!("T{}@{}", r.id % 1000, r.ts),
                    2 => format!("W{}", r.ts),
                    3 => "fb".to_string(),
                    4 => "TERM".to_string(),
                    _ => "FAR".to_string(),
                })
                .collect();
            eprintln!("  p{} {:?}: {}", pid, c, s.join(" "));
        }
        for (k, l) in &rr.rec.links {
            let f = |v: &Vec<renoir::verif::ElemInfo>| v.iter().map(|e| match e.kind { 0 => "i".to_string(), 1 => format!("t{}", e.ts), 2 => format!("W{}", e.ts), 3 => "fb".into(), 4 => "TERM".into(), _ => "FAR".into() }).collect::<Vec<_>>().join(" ");
            eprintln!("  link {:?}->{:?} (prev {}): sent [{}] recv [{}]", k.from, k.to, k.prev_block, f(&l.sent), f(&l.recv));
        }
    }
    let f = oracle::facts(&sc, &rr);
    rep.nontrivial = f.nontrivial && families::nontrivial(&job.prop, &sc, &rr);
    rep.steps = rr.outcome.steps;
    rep.vtime_ns = rr.outcome.vtime_ns;
    rep.switches = rr.outcome.switches;
    rep.threads = rr.outcome.threads.len();
    rep.log_hash = rr.outcome.log_hash;
    rep.sched_hash = rr.outcome.sched_hash;
    rep.workload_hash = workload_hash;
    for (i, n) in rr.outcome.fired.iter().enumerate() {
        if *n > 0 {
            rep.fired.insert(FK_NAMES[i].to_string(), *n);
        }
    }
    rep.counters = rr.outcome.counters.clone();
    rep.brief = sc.brief();
    rep.link_batches = rr.rec.link_batches;
    rep.panics = rr
        .outcome
        .threads
        .iter()
        .filter_map(|t| t.panicked.as_ref().map(|p| format!("{}: {}", t.name, oracle::first_line(p))))
        .collect();
    if job.want_tapes || !rep.violations.is_empty() || rep.harness_error.is_some() {
        rep.tapes = Some(Tapes {
            w: wtape,
            s: rr.outcome.sched_tape.clone(),
            f: rr.outcome.fault_tape.clone(),
        });
    }
    if job.want_scenario || !rep.violations.is_empty() {
        rep.scenario = Some(sc.clone());
    }
    rep.exiting = rr.outcome.verdict != Verdict::Completed;
    rep.real_ms = t0.elapsed().as_secs_f64() * 1000.0;
    rep
}

pub fn worker_main() -> ! {
    let stdin = std::io::stdin();
    let stdout = std::io::stdout();
    let mut pinned = false;
    for line in stdin.lock().lines() {
        let line = match line {
            Ok(l) => l,
            Err(_) => break,
        };
        if line.trim().is_empty() {
            continue;
        }
        let job: Job = match serde_json::from_str(&line) {
            Ok(j) => j,
            Err(e) => {
                let mut r = Report::default();
                r.harness_error = Some(format!("bad job line: {e}"));
                let mut o = stdout.lock();
                let _ = writeln!(o, "{}", serde_json::to_string(&r).unwrap());
                let _ = o.flush();
                continue;
            }
        };
        if !pinned {
            if let Some(c) = job.cpu {
                simrt::pin_process_to_cpu(c);
            }
            pinned = true;
        }
        let rep = execute(&job);
        let exiting = rep.exiting || simrt::rt::pool_threads_created() > 3000;
        {
            let mut o = stdout.lock();
            let _ = writeln!(o, "{}", serde_json::to_string(&rep).unwrap());
            let _ = o.flush();
        }
        if exiting {
            std::process::exit(0);
        }
    }
    std::process::exit(0)
}
