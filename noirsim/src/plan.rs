//! Scenario description (decoded from the workload tape): layout, sources, an SSA list of steps,
//! knobs. Serializable, so it is also what evidence samples and replay files show.

use std::collections::BTreeMap;

use serde::{Deserialize, Serialize};

use crate::elem::*;
use crate::probe::Ev;
use crate::rec::CrashPlan;

#[derive(Clone, Debug, Serialize, Deserialize, PartialEq, Eq)]
pub enum Layout {
    Local(u64),
    /// cores per host
    Remote(Vec<u64>),
}

impl Layout {
    pub fn hosts(&self) -> usize {
        match self {
            Layout::Local(_) => 1,
            Layout::Remote(h) => h.len(),
        }
    }
    pub fn total_cores(&self) -> u64 {
        match self {
            Layout::Local(p) => *p,
            Layout::Remote(h) => h.iter().sum(),
        }
    }
    pub fn cores(&self) -> Vec<u64> {
        match self {
            Layout::Local(p) => vec![*p],
            Layout::Remote(h) => h.clone(),
        }
    }
}

#[derive(Clone, Copy, Debug, Serialize, Deserialize, PartialEq, Eq)]
pub enum Bm {
    Default,
    Single,
    Fixed(usize),
    /// (size, max delay in microseconds)
    Adaptive(usize, u64),
}

impl Bm {
    pub fn to_renoir(self) -> renoir::BatchMode {
        match self {
            Bm::Default => renoir::BatchMode::default(),
            Bm::Single => renoir::BatchMode::single(),
            Bm::Fixed(n) => renoir::BatchMode::fixed(n.max(1)),
            Bm::Adaptive(n, us) => {
                renoir::BatchMode::adaptive(n.max(1), std::time::Duration::from_micros(us.max(1)))
            }
        }
    }
    pub fn max_delay_us(self) -> Option<u64> {
        match self {
            Bm::Default => Some(50_000),
            Bm::Adaptive(_, us) => Some(us),
            _ => None,
        }
    }
}

#[derive(Clone, Copy, Debug, Serialize, Deserialize, PartialEq, Eq)]
pub enum Repl {
    Unlimited,
    Limited(u64),
    Host,
    One,
}

impl Repl {
    pub fn to_renoir(self) -> renoir::Replication {
        match self {
            Repl::Unlimited => renoir::Replication::Unlimited,
            Repl::Limited(n) => renoir::Replication::new_limited(n.max(1)),
            Repl::Host => renoir::Replication::Host,
            Repl::One => renoir::Replication::One,
        }
    }
    pub fn intersect(self, o: Repl) -> Repl {
        use Repl::*;
        match (self, o) {
            (One, _) | (_, One) => One,
            (Host, _) | (_, Host) => Host,
            (Limited(a), Limited(b)) => Limited(a.min(b)),
            (Limited(a), _) | (_, Limited(a)) => Limited(a),
            (Unlimited, Unlimited) => Unlimited,
        }
    }
    /// the (host, index) pairs of the replicas under a layout (documented semantics)
    pub fn shape(self, l: &Layout) -> std::collections::BTreeSet<(u64, u64)> {
        let cores = l.cores();
        let mut s = std::collections::BTreeSet::new();
        match self {
            Repl::Unlimited => {
                for (h, c) in cores.iter().enumerate() {
                    for k in 0..*c {
                        s.insert((h as u64, k));
                    }
                }
            }
            Repl::Limited(n) => {
                let mut rem = n;
                for (h, c) in cores.iter().enumerate() {
                    let k = rem.min(*c);
                    for i in 0..k {
                        s.insert((h as u64, i));
                    }
                    rem -= k;
                }
            }
            Repl::Host => {
                if matches!(l, Layout::Local(_)) {
                    s.insert((0, 0));
                } else {
                    for h in 0..cores.len() {
                        s.insert((h as u64, 0));
                    }
                }
            }
            Repl::One => {
                s.insert((0, 0));
            }
        }
        s
    }

    /// number of replicas under a layout (mirrors the documented semantics, not the code)
    pub fn count(self, l: &Layout) -> u64 {
        match (self, l) {
            (Repl::Unlimited, l) => l.total_cores(),
            (Repl::Limited(n), l) => n.min(l.total_cores()),
            (Repl::Host, l) => l.hosts() as u64,
            (Repl::One, _) => 1,
        }
    }
}

#[derive(Clone, Debug, Serialize, Deserialize, PartialEq, Eq)]
pub enum Src {
    /// `IteratorSource` (single replica)
    Iter(Vec<E>),
    /// `ParallelIteratorSource` with a closure that slices the vector by (index, peers)
    ParIter(Vec<E>),
    /// harness `ScriptedSource`: per-replica scripts
    Scripted(Vec<Vec<Ev>>, Repl),
    /// `ChannelSource` fed by a simulated client: (pause in us before the burst, burst)
    Channel(Vec<(u64, Vec<E>)>),
    /// `FileSource` over the given content; each line becomes E{id: hash(line), ..}
    File(Vec<u8>),
    /// `CsvSource`: (content, has_headers)
    Csv(Vec<u8>, bool),
    /// `stream_par_iter(a..b)` over u64
    Range(u64, u64),
}

#[derive(Clone, Copy, Debug, Serialize, Deserialize, PartialEq, Eq)]
pub enum GbForm {
    /// group_by + fold
    Fold,
    /// group_by + reduce
    Reduce,
    /// group_by_fold (two-phase)
    FoldAssoc,
    /// group_by_reduce (two-phase)
    ReduceAssoc,
    Sum,
    Count,
    Avg,
    MinEl,
    MaxEl,
    /// group_by + keyed rich_map counter
    RichCounter,
    /// key_by (no repartition) directly followed by group_by-free keyed map: layout independent
    KeyedMap,
}

#[derive(Clone, Copy, Debug, Serialize, Deserialize, PartialEq, Eq)]
pub enum GlForm {
    Fold,
    Reduce,
    FoldAssoc,
    ReduceAssoc,
}

#[derive(Clone, Copy, Debug, Serialize, Deserialize, PartialEq, Eq)]
pub enum JoinKind {
    Inner,
    Left,
    Outer,
}

#[derive(Clone, Copy, Debug, Serialize, Deserialize, PartialEq, Eq)]
pub enum JoinForm {
    /// join_with().ship_hash().local_hash()
    HashHash,
    /// join_with().ship_hash().local_sort_merge()
    HashSortMerge,
    /// join_with().ship_broadcast_right().local_hash()   (inner, left only)
    BcastHash,
    /// join_with().ship_broadcast_right().local_sort_merge()   (inner, left only)
    BcastSortMerge,
    /// Stream::join / left_join / outer_join shortcut
    Shortcut,
    /// group_by on both sides then KeyedStream::join / join_outer
    Keyed,
}

#[derive(Clone, Copy, Debug, Serialize, Deserialize, PartialEq, Eq)]
pub enum WinAgg {
    /// (count, order-sensitive chained hash of ids)
    Chain,
    Count,
    Sum,
    Min,
    Max,
    First,
    Last,
    /// like Chain, and the result carries the member ids (8 bytes each) in `pad`
    Members,
}

#[derive(Clone, Debug, Serialize, Deserialize, PartialEq, Eq)]
pub enum WinKind {
    Count { n: usize, s: usize, exact: bool },
    EventTumbling { size: i64 },
    EventSliding { size: i64, slide: i64 },
    /// processing time: (size us, slide us)
    Proc { size_us: u64, slide_us: u64 },
    Session { gap_us: u64 },
    /// transaction window: commit when v % m == r (Commit), else Continue; CommitAfter variant
    Tx { m: i64, after: Option<i64> },
}

/// further stateless / keyed operators of the algebra, each with a one-line sequential meaning
#[derive(Clone, Debug, Serialize, Deserialize, PartialEq, Eq)]
pub enum ExtraOp {
    /// filter_map(|e| p(e).then(|| f(e)))
    FilterMap(PredFn, MapFn),
    /// map(|e| f(e) as Vec).flatten()
    Flatten(FlatFn),
    /// rich_flat_map with a stateless closure
    RichFlatMap(FlatFn),
    /// rich_filter_map with a stateless closure
    RichFilterMap(PredFn),
    /// map_memo_by(|e| g(key), |e| key): one output per input, a function of the key only
    MemoKey,
    /// map to a key-only element, then unique_assoc(): one element per distinct key
    UniqueKeys,
    /// inspect (no effect on the stream)
    Inspect,
    /// group_by(key).filter(p).flat_map(f).rich_filter_map(always).inspect().drop_key()
    KeyedChain(PredFn, FlatFn),
}

#[derive(Clone, Debug, Serialize, Deserialize, PartialEq, Eq)]
pub enum UnOp {
    Extra(ExtraOp),
    Map(MapFn),
    Filter(PredFn),
    FlatMap(FlatFn),
    Shuffle,
    Repl(Repl),
    /// repartition_by(replication, |e| (e.key % m) as u64): group-by connection chosen by the user
    RepartBy(Repl, u16),
    Batch(Bm),
    Gb(GbForm, AggFn),
    Gl(GlForm, AggFn),
    /// group_by(key) + window + aggregator -> E
    Win(WinKind, WinAgg),
    /// window_all
    WinAll(WinKind, WinAgg),
    Reorder,
    /// add_timestamps(ts = v mod m..., watermark every k elements with lag)
    AddTs { every: u32, lag: i64 },
    DropTs,
    Broadcast,
    /// rekey then unkey: key_by(|e| e.key) ... drop_key
    KeyByDrop,
}

#[derive(Clone, Debug, Serialize, Deserialize, PartialEq, Eq)]
pub enum BinOp {
    Merge,
    Zip,
    Join(JoinKind, JoinForm),
    /// interval join on ts (lower, upper); keyed = group_by both sides first
    IntervalJoin { lower: i64, upper: i64, keyed: bool },
    /// left.group_by_fold(key) (two-phase, keyed) joined by KeyedStream::join with
    /// right.group_by(key): relies on both group-by connections agreeing on key -> replica
    KeyedJoinAssoc(AggFn),
    /// left.group_by_reduce(key) merged (KeyedStream::merge) with right.group_by(key), then reduce
    KeyedMergeAssoc(AggFn),
}

#[derive(Clone, Copy, Debug, Serialize, Deserialize, PartialEq, Eq)]
pub enum SinkKind {
    CollectVec,
    CollectCount,
    /// collect::<Vec<_>>()
    Collect,
    CollectChannel,
    ForEach,
    CollectVecAll,
    /// collect_all::<Vec<_>>(): the whole result on every host
    CollectAll,
    /// collect_channel_parallel(): no repartition, every host receives what its replicas produced
    CollectChannelParallel,
}

/// A loop. The body is a list of steps over local stream ids: local id 0 is the loop input; ids
/// `>= SIDE_BASE` name streams of the enclosing plan (side inputs, consumed by the body).
#[derive(Clone, Debug, Serialize, Deserialize, PartialEq, Eq)]
pub struct LoopSpec {
    pub iterate: bool,
    pub rounds: usize,
    /// stop when state.acc % stop_mod == stop_rem (never if stop_mod == 0)
    pub stop_mod: i64,
    pub stop_rem: i64,
    pub agg: AggFn,
    pub body: Vec<Step>,
    /// local id of the body's result stream
    pub body_out: usize,
    /// body closures read the loop state and fold it into v
    pub use_state: bool,
    /// the condition closure sleeps this long (virtual us): a slow state broadcast
    pub cond_sleep_us: u64,
}

pub const SIDE_BASE: usize = 1000;

#[derive(Clone, Debug, Serialize, Deserialize, PartialEq, Eq)]
pub enum Step {
    Source(usize),
    Un(usize, UnOp),
    Bin(usize, usize, BinOp),
    Split(usize, usize),
    Route(usize, Vec<PredFn>),
    /// replay -> 1 stream (state); iterate -> 2 streams (state, output)
    Loop(usize, LoopSpec),
    Sink(usize, SinkKind),
}

#[derive(Clone, Debug, Serialize, Deserialize, PartialEq, Eq, Default)]
pub struct SimKnobs {
    pub switch_permille: u32,
    pub rates: BTreeMap<String, u32>,
    pub tcp_cap: usize,
    pub probe_yield: u32,
    /// per host (offset us, rate permille)
    pub clocks: Vec<(u64, u32)>,
    pub max_steps: u64,
    /// PCT-style scheduling: number of priority-change points (0 = weighted random walk) and the
    /// span of steps they are drawn from
    #[serde(default)]
    pub pct_depth: u32,
    #[serde(default)]
    pub pct_span: u32,
}

#[derive(Clone, Debug, Serialize, Deserialize, PartialEq, Eq)]
pub struct Scenario {
    pub family: String,
    pub layout: Layout,
    pub bm: Bm,
    pub sources: Vec<Src>,
    pub steps: Vec<Step>,
    pub knobs: SimKnobs,
    pub crash: Option<CrashPlan>,
    /// pure range-splitting cases checked next to the simulated job (C15):
    /// (integer type, start, end, peers)
    #[serde(default)]
    pub range_cases: Vec<(u8, i128, i128, u64)>,
    /// the client keeps the channel open this long (us) after its last burst (C18)
    #[serde(default)]
    pub client_grace_us: u64,
    /// C20, streaming jobs: after its scripted bursts the client keeps feeding one element every
    /// 2 ms until some host's `execute_blocking` has failed (or it gives up)
    #[serde(default)]
    pub stream_until_failure: bool,
}

impl Scenario {
    /// compact one-line description for logs and class keys
    pub fn brief(&self) -> String {
        let mut s = format!("{} {:?} {:?} srcs={} steps=[", self.family, self.layout, self.bm, self.sources.len());
        for st in &self.steps {
            s.push_str(&step_brief(st));
            s.push(' ');
        }
        s.push(']');
        s
    }
}

pub fn step_brief(st: &Step) -> String {
    match st {
        Step::Source(i) => format!("src{}", i),
        Step::Un(i, op) => format!("{}:{:?}", i, op),
        Step::Bin(a, b, op) => format!("{}+{}:{:?}", a, b, op),
        Step::Split(i, n) => format!("{}:split{}", i, n),
        Step::Route(i, p) => format!("{}:route{}", i, p.len()),
        Step::Loop(i, l) => format!(
            "{}:{}x{}[{}]",
            i,
            if l.iterate { "iterate" } else { "replay" },
            l.rounds,
            l.body.iter().map(step_brief).collect::<Vec<_>>().join(" ")
        ),
        Step::Sink(i, k) => format!("{}:{:?}", i, k),
    }
}
