//! Type-erased operator chains so that pipelines can be chosen at run time.
//! `Dyn<T>` only delegates; blocks, Start/End, batching and scheduling stay renoir's own.

use std::fmt::Display;

use renoir::operator::{Operator, StreamElement};
use renoir::structure::BlockStructure;
use renoir::{ExecutionMetadata, KeyedStream, Stream};

pub trait DynOp<T>: Send {
    fn d_setup(&mut self, m: &mut ExecutionMetadata);
    fn d_next(&mut self) -> StreamElement<T>;
    fn d_structure(&self) -> BlockStructure;
    fn d_clone(&self) -> Box<dyn DynOp<T>>;
    fn d_fmt(&self, f: &mut std::fmt::Formatter<'_>) -> std::fmt::Result;
}

impl<T, O> DynOp<T> for O
where
    O: Operator<Out = T> + 'static,
{
    fn d_setup(&mut self, m: &mut ExecutionMetadata) {
        self.setup(m)
    }
    fn d_next(&mut self) -> StreamElement<T> {
        self.next()
    }
    fn d_structure(&self) -> BlockStructure {
        self.structure()
    }
    fn d_clone(&self) -> Box<dyn DynOp<T>> {
        Box::new(self.clone())
    }
    fn d_fmt(&self, f: &mut std::fmt::Formatter<'_>) -> std::fmt::Result {
        Display::fmt(self, f)
    }
}

pub struct Dyn<T>(pub Box<dyn DynOp<T>>);

impl<T> Clone for Dyn<T> {
    fn clone(&self) -> Self {
        Dyn(self.0.d_clone())
    }
}

impl<T> Display for Dyn<T> {
    fn fmt(&self, f: &mut std::fmt::Formatter<'_>) -> std::fmt::Result {
        self.0.d_fmt(f)
    }
}

impl<T: Send + 'static> Operator for Dyn<T> {
    type Out = T;
    fn setup(&mut self, m: &mut ExecutionMetadata) {
        self.0.d_setup(m)
    }
    fn next(&mut self) -> StreamElement<T> {
        self.0.d_next()
    }
    fn structure(&self) -> BlockStructure {
        self.0.d_structure()
    }
}

pub type DS<T> = Stream<Dyn<T>>;

pub fn boxed<T: Send + 'static, O: Operator<Out = T> + 'static>(s: Stream<O>) -> DS<T> {
    s.add_operator(|p| Dyn(Box::new(p)))
}

pub fn boxed_keyed<K, V, O>(s: KeyedStream<O>) -> KeyedStream<Dyn<(K, V)>>
where
    K: Clone + Send + std::hash::Hash + Eq + 'static,
    V: Send + 'static,
    O: Operator<Out = (K, V)> + 'static,
{
    KeyedStream(boxed(s.0))
}
