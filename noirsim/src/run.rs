//! Execute one scenario inside the simulator: all hosts, all threads, one process.

use std::sync::{Arc, Mutex};

use renoir::config::{ConfigBuilder, HostConfig};
use renoir::{RuntimeConfig, StreamContext};
use simrt::rt::{Fk, HostClock, FK_NAMES};
use simrt::{Outcome, SimConfig, Tape};

use crate::job::{Builder, ProbeMeta};
use crate::plan::*;
use crate::rec::{self, HostOutcome, Recorder};

pub struct RunResult {
    pub outcome: Outcome,
    pub rec: Recorder,
    pub meta: Vec<ProbeMeta>,
}

pub fn sim_config(sc: &Scenario) -> SimConfig {
    let mut cfg = SimConfig::default();
    cfg.switch_permille = sc.knobs.switch_permille;
    cfg.pct_depth = sc.knobs.pct_depth;
    if sc.knobs.pct_span > 0 {
        cfg.pct_span = sc.knobs.pct_span;
    }
    if sc.knobs.max_steps > 0 {
        cfg.max_steps = sc.knobs.max_steps;
    }
    for (name, rate) in &sc.knobs.rates {
        if let Some(i) = FK_NAMES.iter().position(|n| n == name) {
            cfg.rates[i] = *rate;
        }
    }
    // oracle self-test only (`noirsim selftest oracles`): break a substrate contract on purpose;
    // never set by any check
    if let Ok(v) = std::env::var("VERIF_SELFTEST_FAULT") {
        if let Some((name, rate)) = v.split_once(':') {
            if let (Some(i), Ok(r)) = (FK_NAMES.iter().position(|n| *n == name), rate.parse::<u32>()) {
                cfg.rates[i] = r;
            }
        }
    }
    let nh = sc.layout.hosts();
    cfg.hosts = (0..nh)
        .map(|h| match sc.knobs.clocks.get(h) {
            Some((off, rate)) => HostClock {
                offset_ns: off * 1000,
                rate_permille: (*rate).clamp(900, 1100),
            },
            None => HostClock::default(),
        })
        .collect();
    let _ = Fk::Count;
    cfg
}

fn runtime_config(layout: &Layout, host: u64) -> RuntimeConfig {
    match layout {
        Layout::Local(p) => RuntimeConfig::local(*p).unwrap(),
        Layout::Remote(cores) => {
            let hosts: Vec<HostConfig> = cores
                .iter()
                .enumerate()
                .map(|(h, c)| HostConfig {
                    address: format!("10.0.0.{}", h + 1),
                    base_port: 9000,
                    num_cores: *c,
                    ssh: Default::default(),
                    perf_path: None,
                })
                .collect();
            ConfigBuilder::new_remote()
                .add_hosts(&hosts)
                .host_id(host)
                .build()
                .unwrap()
        }
    }
}

static TMP_COUNTER: std::sync::atomic::AtomicU64 = std::sync::atomic::AtomicU64::new(0);

pub fn run_scenario(sc: &Scenario, sched: Tape, fault: Tape) -> RunResult {
    rec::reset();
    rec::install_observer();
    rec::with(|r| {
        r.crash = sc.crash.clone();
        r.probe_yield = sc.knobs.probe_yield;
    });
    simrt::net::reset(if sc.knobs.tcp_cap > 0 { sc.knobs.tcp_cap } else { 64 * 1024 });
    let cfg = sim_config(sc);
    let needs_files = sc.sources.iter().any(|s| matches!(s, Src::File(_) | Src::Csv(..)));
    let tmpdir = std::env::temp_dir().join(format!(
        "noirsim-{}-{}",
        std::process::id(),
        TMP_COUNTER.fetch_add(1, std::sync::atomic::Ordering::Relaxed)
    ));
    if needs_files {
        std::fs::create_dir_all(&tmpdir).unwrap();
    }
    let meta_out: Arc<Mutex<Vec<ProbeMeta>>> = Arc::new(Mutex::new(vec![]));
    let sc2 = sc.clone();
    let meta2 = meta_out.clone();
    let tmp2 = tmpdir.clone();
    let outcome = simrt::rt::run(cfg, sched, fault, move || {
        let nh = sc2.layout.hosts() as u64;
        let mut handles = Vec::new();
        for h in 0..nh {
            let sc3 = sc2.clone();
            let meta3 = meta2.clone();
            let tmp3 = tmp2.clone();
            handles.push(simrt::rt::spawn_on(format!("host-{}", h), Some(h as u32), move || {
                host_main(&sc3, h, meta3, tmp3)
            }));
        }
        for (h, jh) in handles.into_iter().enumerate() {
            let r = jh.join();
            let panicked = r.err().map(|p| simrt::rt::panic_message(p.as_ref()));
            rec::with(|rc| {
                rc.hosts.push(HostOutcome {
                    host: h as u64,
                    panicked,
                })
            });
        }
    });
    if needs_files {
        let _ = std::fs::remove_dir_all(&tmpdir);
    }
    renoir::verif::set_observer(None);
    let rec = rec::take();
    let meta = meta_out.lock().unwrap().clone();
    RunResult { outcome, rec, meta }
}

fn host_main(sc: &Scenario, host: u64, meta_out: Arc<Mutex<Vec<ProbeMeta>>>, tmpdir: std::path::PathBuf) {
    let cfg = runtime_config(&sc.layout, host);
    let env = StreamContext::new(cfg);
    let mut b = Builder::new(&env, sc, host, tmpdir);
    b.build();
    if host == 0 {
        *meta_out.lock().unwrap() = b.meta.clone();
    }
    let clients = std::mem::take(&mut b.clients);
    let mut client_handles = Vec::new();
    for (i, c) in clients.into_iter().enumerate() {
        client_handles.push(simrt::rt::spawn_on(format!("client-{}", i), None, c));
    }
    // Builder borrows env; execute consumes env: detach the parts we still need first
    let np = b.np;
    let Builder { sinks, host, .. } = b;
    rec::with(|r| r.n_probes = np);
    // collect_channel sinks are drained by a consumer thread that stamps every arrival
    let mut sinks2 = Vec::new();
    let mut consumers = Vec::new();
    for (id, kind, h) in sinks {
        match h {
            crate::job::SinkHandle::Chan(rx) if host == 0 && kind == SinkKind::CollectChannel => {
                consumers.push((
                    id,
                    simrt::rt::spawn_on(format!("sink-consumer-{}", id), None, move || {
                        let mut v = Vec::new();
                        while let Ok(e) = rx.recv() {
                            let now = simrt::rt::now_ns();
                            let eid = e.id;
                            rec::with(|r| r.marks.entry((9001, (0, 0, 0))).or_default().push((eid, now as i64, id as i64)));
                            v.push(e);
                        }
                        v
                    }),
                ));
            }
            h => sinks2.push((id, kind, h)),
        }
    }
    let r = std::panic::catch_unwind(std::panic::AssertUnwindSafe(|| env.execute_blocking()));
    rec::with(|rc| rc.exec_done.push((host, r.is_err())));
    let harvest = Builder2 { sinks: sinks2, host };
    harvest.harvest();
    for (id, c) in consumers {
        let v = if r.is_ok() {
            c.join().unwrap_or_default()
        } else {
            // after a failed run the sending side may never be dropped: do not wait for it
            Vec::new()
        };
        rec::with(|rc| {
            rc.sinks.insert((id, 0), if r.is_ok() { crate::rec::SinkValue::Vec(v) } else { crate::rec::SinkValue::None });
        });
    }
    for c in client_handles {
        let _ = c.join();
    }
    if let Err(p) = r {
        std::panic::resume_unwind(p);
    }
}

struct Builder2 {
    sinks: Vec<(u32, SinkKind, crate::job::SinkHandle)>,
    host: u64,
}

impl Builder2 {
    fn harvest(self) {
        crate::job::harvest_sinks(self.sinks, self.host);
    }
}
