//! Per-run recorder: probe histories, link histories, graph snapshots, sink outputs, host outcomes.
//! Only the baton holder ever touches it, so a plain mutex is enough.

use std::collections::BTreeMap;
use std::sync::{Arc, Mutex};

use renoir::verif::{ElemInfo, GraphSnapshot, LinkEvent, Observer};
use serde::Serialize;

use crate::elem::E;

pub type CoordT = (u64, u64, u64);

pub const K_ITEM: u8 = 0;
pub const K_TS: u8 = 1;
pub const K_WM: u8 = 2;
pub const K_FB: u8 = 3;
pub const K_TERM: u8 = 4;
pub const K_FAR: u8 = 5;

pub fn kind_name(k: u8) -> &'static str {
    ["Item", "Timestamped", "Watermark", "FlushBatch", "Terminate", "FlushAndRestart"][k as usize]
}

#[derive(Clone, Debug, Serialize)]
pub struct PRec {
    pub seq: u64,
    pub kind: u8,
    pub ts: i64,
    pub id: u64,
    pub key: u16,
    pub v: i64,
    pub vt: u64,
}

#[derive(Clone, Debug, PartialEq, Eq, PartialOrd, Ord, Serialize)]
pub struct LinkKey {
    pub from: CoordT,
    pub to: CoordT,
    pub prev_block: u64,
}

#[derive(Clone, Debug, Default)]
pub struct LinkLog {
    pub sent: Vec<ElemInfo>,
    pub recv: Vec<ElemInfo>,
    /// (global seq, first element index, len) per batch
    pub sent_batches: Vec<(u64, usize, usize)>,
    pub recv_batches: Vec<(u64, usize, usize)>,
    pub bad_path: Option<&'static str>,
}

#[derive(Clone, Debug, Serialize)]
pub struct StateObs {
    pub loop_id: u32,
    pub loop_path: Vec<usize>,
    pub inner_path: Option<Vec<usize>>,
    pub coord: CoordT,
    pub true_round: u64,
    pub seen_round: u64,
    pub seen_acc: i64,
    pub site: u32,
}

#[derive(Clone, Debug)]
pub enum SinkValue {
    Vec(Vec<E>),
    Count(usize),
    None,
}

#[derive(Clone, Debug)]
pub struct HostOutcome {
    pub host: u64,
    pub panicked: Option<String>,
}

#[derive(Default)]
pub struct Recorder {
    pub seq: u64,
    pub probes: BTreeMap<(u32, CoordT), Vec<PRec>>,
    pub links: BTreeMap<LinkKey, LinkLog>,
    pub graphs: Vec<GraphSnapshot>,
    /// (sink id, host) -> value
    pub sinks: BTreeMap<(u32, u64), SinkValue>,
    pub hosts: Vec<HostOutcome>,
    pub state_obs: Vec<StateObs>,
    pub notes: Vec<String>,
    /// free-form (site, coord) -> values, used by family-specific instrumentation
    pub marks: BTreeMap<(u32, CoordT), Vec<(u64, i64, i64)>>,
    pub crash: Option<CrashPlan>,
    pub crash_fired: bool,
    pub probe_yield: u32,
    pub link_batches: u64,
    /// number of probes of the built job (crash plans name a probe modulo this)
    pub n_probes: u32,
    /// how many hosts had a thread panic with the injected message
    pub crash_site: Option<(u32, CoordT, u32)>,
    /// (host, failed) for every host whose `execute_blocking` has returned, in that order
    pub exec_done: Vec<(u64, bool)>,
    /// streaming crash jobs: the client gave up after feeding this many further elements after
    /// the injected panic without any host reporting a failure
    pub stream_gave_up: Option<u64>,
}

#[derive(Clone, Debug, Serialize, serde::Deserialize, PartialEq, Eq)]
pub struct CrashPlan {
    pub probe: u32,
    /// which replica (index into the sorted list of coords that own this probe is unknown before
    /// the run, so the plan names global replica ordinal r: the r-th distinct coord to reach it)
    pub replica_ordinal: u32,
    /// panic when this replica sees its n-th data element (0 = the first), or at FlushAndRestart
    /// if it has fewer
    pub nth: u32,
    /// what the user function panics with: 0 = panic!(format string), 1 = panic_any(an error
    /// value), 2 = panic!("literal")
    #[serde(default)]
    pub payload: u8,
}

/// a user error value used as a panic payload (neither &str nor String)
#[derive(Debug)]
pub struct InjectedError(pub u32);

pub static REC: Mutex<Option<Recorder>> = Mutex::new(None);

pub fn reset() {
    *REC.lock().unwrap() = Some(Recorder::default());
}

pub fn take() -> Recorder {
    REC.lock().unwrap().take().unwrap_or_default()
}

pub fn with<R>(f: impl FnOnce(&mut Recorder) -> R) -> R {
    let mut g = REC.lock().unwrap();
    let r = g.get_or_insert_with(Recorder::default);
    f(r)
}

pub struct LinkObserver;

impl Observer for LinkObserver {
    fn on_link(&self, ev: &LinkEvent<'_>) {
        with(|r| {
            r.seq += 1;
            let seq = r.seq;
            let log = r
                .links
                .entry(LinkKey {
                    from: ev.sender,
                    to: ev.to,
                    prev_block: ev.prev_block,
                })
                .or_default();
            if ev.is_send {
                log.sent_batches.push((seq, log.sent.len(), ev.elems.len()));
                log.sent.extend_from_slice(ev.elems);
            } else {
                log.recv_batches.push((seq, log.recv.len(), ev.elems.len()));
                log.recv.extend_from_slice(ev.elems);
                if ev.path == "recv-of-a-type-never-sent" {
                    log.bad_path = Some(ev.path);
                }
                r.link_batches += 1;
            }
        });
        if !ev.is_send {
            simrt::rt::progress();
        }
    }

    fn on_graph(&self, g: GraphSnapshot) {
        with(|r| r.graphs.push(g));
    }
}

pub fn install_observer() {
    renoir::verif::set_observer(Some(Arc::new(LinkObserver)));
}
