//! Which generator, which run counts and which non-triviality rule each property uses.

use simrt::Tape;

use crate::gen::{self, Profile};
use crate::gen2;
use crate::gen3;
use crate::gen4;
use crate::plan::*;
use crate::run::RunResult;

pub const ALL_PROPS: &[&str] = &[
    "C01", "C02", "C03", "C04", "C05", "C06", "C07", "C08", "C09", "C10", "C11", "C12", "C13", "C14",
    "C15", "C16", "C17", "C18", "C19", "C20",
];

pub fn generate(prop: &str, _run: u64, t: &mut Tape) -> Scenario {
    match prop {
        "C02" if _run % 4 == 3 => gen2::gen_timed(t, false),
        "C02" => {
            let mut p = Profile::pipe();
            p.remote_bias = 85;
            p.big_pad = true;
            p.small_batches = true;
            p.w_loop = 2;
            gen::gen_pipe(t, p)
        }
        "C04" if _run % 10 == 4 => gen2::gen_iter_heavy(t),
        "C04" => {
            let mut p = Profile::pipe();
            if _run % 10 == 9 {
                p.wide = true;
                p.max_elems = p.max_elems.min(120);
            }
            p.small_batches = true;
            p.w_loop = 8;
            p.w_zip = 4;
            gen::gen_pipe(t, p)
        }
        // C01 ("the result is the sequential one") and C05 ("nothing crosses an iteration
        // boundary") are stated for every kind of job: a share of their runs draws from the
        // specialised families
        "C01" => match _run % 8 {
            4 if _run % 16 == 4 => gen2::gen_state_skew(t),
            4 if _run % 32 == 12 => gen2::gen_iter_heavy(t),
            4 => gen2::gen_loopfam(t, gen2::LoopOpts { side: true, nested: true }),
            5 => gen3::gen_join_opts(t, _run % 16 == 5),
            6 => gen3::gen_fan(t),
            7 => gen3::gen_agg(t),
            3 if _run % 16 == 3 => {
                // "identical for every parallelism and number of hosts": clusters with more
                // replicas per block than a channel holds batches
                let mut p = Profile::pipe();
                p.wide = true;
                p.max_elems = 300;
                gen::gen_pipe(t, p)
            }
            _ => gen::gen_pipe(t, Profile::pipe()),
        },
        "C05" => match _run % 8 {
            3 | 7 => gen2::gen_cwin(t),
            5 => gen3::gen_join_opts(t, true),
            6 => gen2::gen_loopfam(t, gen2::LoopOpts { side: _run % 16 == 6, nested: false }),
            // streaming (channel) sources: bursts, idle periods, the producer closing the channel
            // long after its last element
            1 if _run % 16 == 1 => gen4::gen_latency(t),
            _ => gen::gen_pipe(t, Profile::pipe()),
        },
        "C06" => gen2::gen_timed(t, true),
        "C03" => gen3::gen_route(t),
        "C07" => gen3::gen_agg(t),
        "C08" => {
            if _run % 5 == 4 {
                gen3::gen_route(t)
            } else {
                gen3::gen_join(t)
            }
        }
        "C09" => gen3::gen_fan(t),
        "C10" if _run % 8 == 7 => gen2::gen_nested_state(t),
        "C10" if _run % 8 == 3 => gen2::gen_state_skew(t),
        "C10" => gen2::gen_loopfam(t, gen2::LoopOpts { side: _run % 3 == 0, nested: true }),
        "C11" => gen2::gen_loopfam(t, gen2::LoopOpts { side: true, nested: false }),
        "C12" => gen2::gen_cwin(t),
        "C13" => gen2::gen_evwin(t),
        "C14" => gen2::gen_ptwin(t),
        "C15" => gen4::gen_src(t),
        "C18" => gen4::gen_latency(t),
        "C19" => gen4::gen_graph(t),
        "C20" => gen4::gen_crash(t, _run % SITES_PER_JOB),
        "C16" => match t.draw(4) {
            0 | 1 => gen2::gen_seq(t),
            2 => gen2::gen_reorder(t),
            _ => gen2::gen_timed(t, false),
        },
        "C17" => gen2::gen_timed(t, false),
        _ => gen::gen_pipe(t, Profile::pipe()),
    }
}

/// C20 enumerates fault sites per job: run index = job * SITES_PER_JOB + site
pub const SITES_PER_JOB: u64 = 54;

/// the run index that seeds the workload tape (C20: all sites of one job share the workload)
pub fn workload_run(prop: &str, run: u64) -> u64 {
    if prop == "C20" && run < 1_000_000 {
        run / SITES_PER_JOB
    } else {
        run
    }
}

/// (quick, thorough) number of runs
pub fn runs(prop: &str) -> (u64, u64) {
    match prop {
        "C04" => (1500, 30000),
        "C02" => (1500, 30000),
        "C20" => (40 * SITES_PER_JOB, 800 * SITES_PER_JOB),
        _ => (2500, 50000),
    }
}

pub fn nontrivial(_prop: &str, _sc: &Scenario, _rr: &RunResult) -> bool {
    true
}

pub fn rule(prop: &str) -> String {
    let base = "cases are (workload, schedule, fault) tape triples derived from VERIF_SEED, the property and the run index; the workload tape decodes to a scenario (layout, batch mode, sources, SSA plan of operators, knobs), the other two drive the simulated scheduler and the fault sites. distinct = distinct (scenario hash, schedule-trace hash) pairs; non-trivial = the job had >= 2 replicas in total and at least one link between two different replicas carried >= 2 batches";
    format!("{} [{}]", base, prop)
}

pub fn level(prop: &str) -> &'static str {
    match prop {
        "C20" => "fault_enumeration",
        _ => "exploration",
    }
}

