//! Scenario generators: decode the workload tape into a `Scenario`. Value 0 on the tape is always
//! the simplest choice (fewest elements, one host, no fault), so zeroing simplifies.

use simrt::Tape;

use crate::elem::*;
use crate::plan::*;

#[derive(Clone, Debug)]
pub struct Attr {
    pub repl: Repl,
    /// inside the body of a loop (depth)
    pub depth: usize,
    /// rough upper estimate of the number of elements and of distinct keys
    pub len: usize,
    pub keys: usize,
}

/// generation profile: which step kinds may be drawn and how often
#[derive(Clone, Debug)]
pub struct Profile {
    pub family: &'static str,
    pub max_steps: usize,
    pub max_elems: usize,
    pub w_map: u32,
    pub w_shuffle: u32,
    pub w_repl: u32,
    pub w_batch: u32,
    pub w_gb: u32,
    pub w_gl: u32,
    pub w_join: u32,
    pub w_merge: u32,
    pub w_zip: u32,
    pub w_split: u32,
    pub w_route: u32,
    pub w_loop: u32,
    pub w_broadcast: u32,
    pub w_cwin: u32,
    pub remote_bias: u32,
    /// clusters with more replicas per block than a channel holds batches (17..35 cores)
    pub wide: bool,
    pub big_pad: bool,
    pub small_batches: bool,
    pub allow_known_defects: bool,
    pub faults: &'static [&'static str],
    pub sinks: &'static [SinkKind],
}

pub const ALL_SINKS: &[SinkKind] = &[
    SinkKind::CollectVec,
    SinkKind::CollectCount,
    SinkKind::Collect,
    SinkKind::CollectChannel,
    SinkKind::ForEach,
    SinkKind::CollectVecAll,
    SinkKind::CollectAll,
    SinkKind::CollectChannelParallel,
];

pub const TIMING_FAULTS: &[&str] = &[
    "exec_cost",
    "stall",
    "weight",
    "clock_skew",
    "tcp_segment",
    "tcp_eintr",
    "tcp_latency",
    "tcp_small_buffer",
    "connect_refused",
    "connect_timeout",
    "accept_order",
    "select_bias",
    "sender_order",
];

impl Profile {
    pub fn pipe() -> Profile {
        Profile {
            family: "pipe",
            max_steps: 8,
            max_elems: 2000,
            w_map: 30,
            w_shuffle: 12,
            w_repl: 6,
            w_batch: 6,
            w_gb: 12,
            w_gl: 5,
            w_join: 8,
            w_merge: 6,
            w_zip: 0,
            w_split: 6,
            w_route: 3,
            w_loop: 4,
            w_broadcast: 0,
            w_cwin: 3,
            remote_bias: 50,
            wide: false,
            big_pad: false,
            small_batches: false,
            allow_known_defects: false,
            faults: TIMING_FAULTS,
            sinks: ALL_SINKS,
        }
    }
}

pub struct Gen<'t> {
    pub t: &'t mut Tape,
    pub p: Profile,
    pub steps: Vec<Step>,
    pub attrs: Vec<Option<Attr>>,
    pub sources: Vec<Src>,
    pub next_id: u64,
    pub layout: Layout,
    pub nsteps: usize,
    /// origin of the event-time axis of this scenario's scripted sources (times relative to a
    /// reference instant may well be negative)
    pub ts_base: Option<i64>,
}

pub fn gen_layout(t: &mut Tape, remote_bias: u32) -> Layout {
    // 0 -> Local(1)
    let remote = t.draw(100) >= 100 - remote_bias.min(100);
    if !remote {
        Layout::Local(1 + t.draw(6) as u64)
    } else {
        let nh = 1 + t.draw(4) as usize;
        Layout::Remote((0..nh).map(|_| 1 + t.draw(4) as u64).collect())
    }
}

pub fn gen_bm(t: &mut Tape, small: bool) -> Bm {
    match t.draw(if small { 4 } else { 6 }) {
        0 => Bm::Default,
        1 => Bm::Single,
        2 => Bm::Fixed(1 + t.draw(4) as usize),
        3 => Bm::Adaptive(1 + t.draw(8) as usize, [100, 1000, 5000, 50_000][t.draw(4) as usize]),
        4 => Bm::Fixed([16, 100, 1024, 2048][t.draw(4) as usize]),
        _ => Bm::Adaptive([16, 100, 1024][t.draw(3) as usize], [1000, 50_000, 200_000][t.draw(3) as usize]),
    }
}

pub fn gen_knobs(t: &mut Tape, faults: &[&str], layout: &Layout) -> SimKnobs {
    let mut k = SimKnobs::default();
    k.switch_permille = [0, 50, 300, 700, 1000][t.draw(5) as usize];
    k.probe_yield = [0, 0, 50, 300][t.draw(4) as usize];
    k.tcp_cap = [64 * 1024, 4096, 256, 256 * 1024][t.draw(4) as usize];
    // swarm: each fault kind is enabled for a run with probability 1/3, at a drawn rate
    for f in faults {
        if t.draw(3) == 2 {
            let mut rate = [5, 30, 150, 500][t.draw(4) as usize];
            // a peer that refuses or times out 32 connection attempts in a row is a dead host,
            // which renoir does not promise to survive: keep start-up faults transient
            if f.starts_with("connect_") {
                rate = rate.min(150);
            }
            k.rates.insert(f.to_string(), rate);
        }
    }
    if k.rates.contains_key("clock_skew") {
        for _ in 0..layout.hosts() {
            k.clocks.push((t.draw(1000) as u64 * 1000, 900 + t.draw(201)));
        }
    }
    // a sixth of the runs is scheduled PCT-style: strict random priorities with 1-4 change points
    // (drawn last, so that the rest of the scenario does not depend on it)
    if t.draw(6) == 5 {
        k.pct_depth = 1 + t.draw(4);
        k.pct_span = [200, 2000, 20000][t.draw(3) as usize];
        // under strict priorities a writer that outranks its reader is woken for every few bytes
        // of space: tiny socket buffers turn large messages into millions of scheduling steps
        k.tcp_cap = k.tcp_cap.max(4096);
    }
    k
}

impl<'t> Gen<'t> {
    pub fn new(t: &'t mut Tape, p: Profile) -> Gen<'t> {
        let layout = if p.wide {
            let nh = 3 + t.draw(3) as usize;
            let mut h: Vec<u64> = (0..nh).map(|_| 4 + t.draw(4) as u64).collect();
            while h.iter().sum::<u64>() <= 16 {
                h[0] += 1;
            }
            Layout::Remote(h)
        } else {
            gen_layout(t, p.remote_bias)
        };
        Gen {
            t,
            p,
            steps: vec![],
            attrs: vec![],
            sources: vec![],
            next_id: 1,
            layout,
            nsteps: 0,
            ts_base: None,
        }
    }

    pub fn elems(&mut self, n: usize, keys: u16) -> Vec<E> {
        let mut v = Vec::with_capacity(n);
        let pad_kind = if self.p.big_pad { self.t.draw(4) } else { 0 };
        for _ in 0..n {
            let id = self.next_id;
            self.next_id += 1;
            let key = self.t.draw(keys.max(1) as u32) as u16;
            // skew: half of the elements fall on key 0 in skewed workloads
            let val = self.t.draw(41) as i64 - 20;
            let mut e = E::new(id, key, val);
            e.pad = match pad_kind {
                0 => vec![],
                1 => vec![7u8; (id % 40) as usize],
                2 => vec![9u8; 700 + (id % 300) as usize],
                _ => {
                    if id % 50 == 0 {
                        vec![3u8; 40_000]
                    } else {
                        vec![]
                    }
                }
            };
            v.push(e);
        }
        v
    }

    pub fn gen_len(&mut self) -> usize {
        let c = [0usize, 1, 2, 5, 20, 60, 200, 600, 2000];
        let n = c[self.t.draw(c.len() as u32) as usize];
        let n = n.min(self.p.max_elems);
        if n >= 5 {
            n + self.t.draw(5) as usize
        } else {
            n
        }
    }

    pub fn gen_keys(&mut self) -> u16 {
        [1u16, 2, 3, 7, 40, 400][self.t.draw(6) as usize]
    }

    pub fn add_source(&mut self, par: bool, n: usize, keys: u16) -> usize {
        let v = self.elems(n, keys);
        let si = self.sources.len();
        self.sources.push(if par { Src::ParIter(v) } else { Src::Iter(v) });
        self.steps.push(Step::Source(si));
        self.attrs.push(Some(Attr {
            repl: if par { Repl::Unlimited } else { Repl::One },
            depth: 0,
            len: n,
            keys: keys as usize,
        }));
        self.attrs.len() - 1
    }

    pub fn un(&mut self, i: usize, op: UnOp) -> usize {
        let a = self.attrs[i].take().expect("gen: stream used twice");
        let repl = match &op {
            UnOp::Shuffle | UnOp::Gb(..) | UnOp::Broadcast | UnOp::Win(..) | UnOp::Extra(ExtraOp::KeyedChain(..)) | UnOp::Extra(ExtraOp::UniqueKeys) => Repl::Unlimited,
            UnOp::Repl(r) | UnOp::RepartBy(r, _) => *r,
            UnOp::Gl(..) | UnOp::WinAll(..) => Repl::One,
            _ => a.repl,
        };
        let (len, keys) = match &op {
            UnOp::FlatMap(_) | UnOp::Extra(ExtraOp::Flatten(_)) | UnOp::Extra(ExtraOp::RichFlatMap(_)) | UnOp::Extra(ExtraOp::KeyedChain(..)) => (a.len * 2, a.keys),
            UnOp::Map(MapFn::Rekey(m, _)) => (a.len, *m as usize),
            UnOp::Gb(GbForm::RichCounter, _) | UnOp::Gb(GbForm::KeyedMap, _) => (a.len, a.keys),
            UnOp::Gb(..) => (a.keys.min(a.len), a.keys),
            UnOp::Gl(..) => (1, 1),
            UnOp::Broadcast => (a.len * 8, a.keys),
            _ => (a.len, a.keys),
        };
        self.steps.push(Step::Un(i, op));
        self.attrs.push(Some(Attr { repl, depth: a.depth, len, keys }));
        self.nsteps += 1;
        self.attrs.len() - 1
    }

    /// make the stream's scheduling requirement `Unlimited` (needed by merge/zip/loops)
    pub fn unlimited(&mut self, i: usize) -> usize {
        if self.attrs[i].as_ref().unwrap().repl == Repl::Unlimited {
            i
        } else {
            self.un(i, UnOp::Shuffle)
        }
    }

    pub fn bin(&mut self, a: usize, b: usize, op: BinOp) -> usize {
        let (a, b) = match op {
            BinOp::Merge | BinOp::Zip => (self.unlimited(a), self.unlimited(b)),
            BinOp::Join(_, JoinForm::BcastHash) | BinOp::Join(_, JoinForm::BcastSortMerge) => (a, b),
            _ => (a, b),
        };
        let aa = self.attrs[a].take().expect("gen: stream used twice");
        let ab = self.attrs[b].take().expect("gen: stream used twice");
        let (len, keys) = match &op {
            BinOp::KeyedMergeAssoc(_) => (aa.keys.max(ab.keys), aa.keys.max(ab.keys)),
            BinOp::KeyedJoinAssoc(_) => (ab.len, aa.keys.max(ab.keys)),
            BinOp::Merge => (aa.len + ab.len, aa.keys.max(ab.keys)),
            BinOp::Zip => (aa.len.min(ab.len), aa.keys),
            _ => (aa.len * ab.len / aa.keys.max(ab.keys).max(1) + aa.len + ab.len, aa.keys.max(ab.keys)),
        };
        let repl = match &op {
            BinOp::Zip => Repl::One,
            BinOp::Merge => Repl::Unlimited,
            BinOp::Join(_, JoinForm::BcastHash) | BinOp::Join(_, JoinForm::BcastSortMerge) => aa.repl,
            BinOp::IntervalJoin { keyed: false, .. } => Repl::One,
            BinOp::KeyedJoinAssoc(_) | BinOp::KeyedMergeAssoc(_) => Repl::Unlimited,
            _ => Repl::Unlimited,
        };
        self.steps.push(Step::Bin(a, b, op));
        self.attrs.push(Some(Attr { repl, depth: aa.depth, len, keys }));
        self.nsteps += 1;
        self.attrs.len() - 1
    }

    pub fn open(&self) -> Vec<usize> {
        (0..self.attrs.len()).filter(|&i| self.attrs[i].is_some()).collect()
    }

    pub fn gen_extra(&mut self, in_loop: bool) -> UnOp {
        let p = [PredFn::VMod(3, 0), PredFn::IdBit(5), PredFn::KeyLt(3), PredFn::True][self.t.draw(4) as usize];
        let f = [FlatFn::Copies(2), FlatFn::Twice, FlatFn::Copies(1)][self.t.draw(3) as usize];
        let x = match self.t.draw(if in_loop { 6 } else { 8 }) {
            0 => ExtraOp::FilterMap(p, MapFn::Add(2)),
            1 => ExtraOp::Flatten(if in_loop { FlatFn::Copies(1) } else { f }),
            2 => ExtraOp::RichFlatMap(if in_loop { FlatFn::Copies(1) } else { f }),
            3 => ExtraOp::RichFilterMap(p),
            4 => ExtraOp::Inspect,
            5 => ExtraOp::KeyedChain(p, if in_loop { FlatFn::Copies(1) } else { f }),
            6 => ExtraOp::MemoKey,
            _ => ExtraOp::UniqueKeys,
        };
        UnOp::Extra(x)
    }

    pub fn gen_map(&mut self) -> UnOp {
        if self.t.draw(5) == 4 {
            return self.gen_extra(true);
        }
        match self.t.draw(8) {
            0 => UnOp::Map(MapFn::Add(1 + self.t.draw(9) as i64)),
            1 => UnOp::Filter(PredFn::VMod(2 + self.t.draw(4) as i64, 0)),
            2 => UnOp::Map(MapFn::MulOdd(3 + 2 * self.t.draw(4) as i64)),
            3 => UnOp::FlatMap(FlatFn::Copies(1 + self.t.draw(3) as u8)),
            4 => UnOp::Map(MapFn::Rekey([1u16, 2, 5, 50][self.t.draw(4) as usize], self.t.draw(7) as u16)),
            5 => UnOp::Filter(PredFn::IdBit(self.t.draw(16) as u8)),
            6 => UnOp::Map(MapFn::Neg),
            _ => UnOp::KeyByDrop,
        }
    }

    pub fn gen_agg(&mut self) -> AggFn {
        [AggFn::Sum, AggFn::Min, AggFn::Max, AggFn::Xor, AggFn::Count][self.t.draw(5) as usize]
    }

    pub fn gen_gb(&mut self) -> UnOp {
        let forms = [
            GbForm::Fold,
            GbForm::Reduce,
            GbForm::FoldAssoc,
            GbForm::ReduceAssoc,
            GbForm::Sum,
            GbForm::Count,
            GbForm::Avg,
            GbForm::MinEl,
            GbForm::MaxEl,
            GbForm::RichCounter,
            GbForm::KeyedMap,
        ];
        let f = forms[self.t.draw(forms.len() as u32) as usize];
        let mut a = self.gen_agg();
        if matches!(f, GbForm::Reduce | GbForm::ReduceAssoc) && a == AggFn::Count {
            a = AggFn::Sum;
        }
        UnOp::Gb(f, a)
    }

    pub fn gen_count_window(&mut self) -> UnOp {
        let n = 1 + self.t.draw(6) as usize;
        let s = 1 + self.t.draw(n as u32) as usize;
        let aggs = [WinAgg::Chain, WinAgg::Count, WinAgg::Sum, WinAgg::Min, WinAgg::Max, WinAgg::First];
        let agg = aggs[self.t.draw(aggs.len() as u32) as usize];
        let kind = WinKind::Count { n, s, exact: self.t.draw(2) == 1 };
        if self.t.draw(4) == 3 {
            UnOp::WinAll(kind, agg)
        } else {
            UnOp::Win(kind, agg)
        }
    }

    pub fn gen_gl(&mut self) -> UnOp {
        let forms = [GlForm::Fold, GlForm::Reduce, GlForm::FoldAssoc, GlForm::ReduceAssoc];
        let f = forms[self.t.draw(4) as usize];
        let mut a = self.gen_agg();
        if matches!(f, GlForm::Reduce | GlForm::ReduceAssoc) && a == AggFn::Count {
            a = AggFn::Sum;
        }
        UnOp::Gl(f, a)
    }

    pub fn gen_join(&mut self) -> BinOp {
        let forms = [
            JoinForm::Shortcut,
            JoinForm::HashHash,
            JoinForm::HashSortMerge,
            JoinForm::BcastHash,
            JoinForm::BcastSortMerge,
            JoinForm::Keyed,
        ];
        let f = forms[self.t.draw(6) as usize];
        let mut k = [JoinKind::Inner, JoinKind::Left, JoinKind::Outer][self.t.draw(3) as usize];
        if matches!(f, JoinForm::BcastHash | JoinForm::BcastSortMerge) && k == JoinKind::Outer {
            k = JoinKind::Left;
        }
        if f == JoinForm::Keyed && k == JoinKind::Left {
            k = JoinKind::Outer;
        }
        BinOp::Join(k, f)
    }

    pub fn gen_repl(&mut self, i: usize) -> UnOp {
        // A forward link needs a producer for every consumer replica: a consumer replica whose
        // (host, index) has no producer makes the job panic at start-up ("Channel for endpoint
        // ... not registered", see DESIGN.md) - only the graph family draws such shapes.
        let from = self.attrs[i].as_ref().unwrap().repl;
        let cand = [
            Repl::One,
            Repl::Unlimited,
            Repl::Limited(1 + self.t.draw(4) as u64),
            Repl::Host,
        ];
        let r = cand[self.t.draw(4) as usize];
        let ps = from.shape(&self.layout);
        let cs = r.shape(&self.layout);
        let fed = cs.len() == 1 || cs.is_subset(&ps);
        if fed || (self.p.allow_known_defects && self.t.draw(8) == 7) {
            UnOp::Repl(r)
        } else {
            UnOp::Repl(Repl::One)
        }
    }

    /// `repartition_by`: any replication requirement (the link is all-to-all), a partition function
    /// with few or many distinct values
    pub fn gen_repart(&mut self) -> UnOp {
        let cand = [
            Repl::One,
            Repl::Unlimited,
            Repl::Limited(1 + self.t.draw(4) as u64),
            Repl::Host,
        ];
        let r = cand[self.t.draw(4) as usize];
        let m = [1u16, 2, 3, 7, 400][self.t.draw(5) as usize];
        UnOp::RepartBy(r, m)
    }

    /// extend the plan with one random step on random open streams
    pub fn grow(&mut self, allow_loop: bool) {
        let open = self.open();
        if open.is_empty() {
            return;
        }
        let i = open[self.t.draw(open.len() as u32) as usize];
        let p = self.p.clone();
        let depth = self.attrs[i].as_ref().unwrap().depth;
        let two = open.len() >= 2;
        let mut ws = vec![
            p.w_map,
            p.w_shuffle,
            p.w_repl,
            p.w_batch,
            p.w_gb,
            p.w_gl,
            if two { p.w_join } else { 0 },
            if two { p.w_merge } else { 0 },
            if two { p.w_zip } else { 0 },
            p.w_split,
            p.w_route,
            if allow_loop && depth == 0 { p.w_loop } else { 0 },
            p.w_broadcast,
            if depth == 0 { p.w_cwin } else { 0 },
        ];
        // inside loop bodies keep to operators that restart cleanly per iteration
        if depth > 0 {
            ws[9] = 0;
            ws[10] = 0;
        }
        let total: u32 = ws.iter().sum();
        let mut v = self.t.draw(total.max(1));
        let mut kind = 0;
        for (k, w) in ws.iter().enumerate() {
            if v < *w {
                kind = k;
                break;
            }
            v -= *w;
        }
        let other = |g: &mut Gen| -> usize {
            let o: Vec<usize> = g.open().into_iter().filter(|&x| x != i).collect();
            // only combine streams of the same loop depth
            let o: Vec<usize> = o
                .into_iter()
                .filter(|&x| g.attrs[x].as_ref().unwrap().depth == depth)
                .collect();
            if o.is_empty() {
                usize::MAX
            } else {
                o[g.t.draw(o.len() as u32) as usize]
            }
        };
        match kind {
            0 => {
                let op = if depth == 0 && self.t.draw(6) == 5 { self.gen_extra(false) } else { self.gen_map() };
                self.un(i, op);
            }
            1 => {
                self.un(i, UnOp::Shuffle);
            }
            2 => {
                let op = if self.t.draw(3) == 0 { self.gen_repart() } else { self.gen_repl(i) };
                self.un(i, op);
            }
            3 => {
                let bm = gen_bm(self.t, p.small_batches);
                self.un(i, UnOp::Batch(bm));
            }
            4 => {
                let op = self.gen_gb();
                self.un(i, op);
            }
            5 => {
                let op = self.gen_gl();
                self.un(i, op);
            }
            6 => {
                let j = other(self);
                if j != usize::MAX {
                    let (la, lb) = (self.attrs[i].as_ref().unwrap().clone(), self.attrs[j].as_ref().unwrap().clone());
                    let est = la.len * lb.len / la.keys.max(lb.keys).max(1);
                    if est <= 6000 {
                        let op = self.gen_join();
                        self.bin(i, j, op);
                    } else {
                        self.bin(i, j, BinOp::Merge);
                    }
                }
            }
            7 => {
                let j = other(self);
                if j != usize::MAX {
                    self.bin(i, j, BinOp::Merge);
                }
            }
            8 => {
                let j = other(self);
                if j != usize::MAX {
                    if self.t.draw(3) == 2 {
                        // zip straight after blocks with the same limited replication
                        let k = 2 + self.t.draw(3) as u64;
                        let a = self.unlimited(i);
                        let b = self.unlimited(j);
                        let a = self.un(a, UnOp::Repl(Repl::Limited(k)));
                        let b = self.un(b, UnOp::Repl(Repl::Limited(k)));
                        let aa = self.attrs[a].take().unwrap();
                        let ab = self.attrs[b].take().unwrap();
                        self.steps.push(Step::Bin(a, b, BinOp::Zip));
                        self.attrs.push(Some(Attr {
                            repl: Repl::One,
                            depth: aa.depth.max(ab.depth),
                            len: aa.len.min(ab.len),
                            keys: aa.keys,
                        }));
                        self.nsteps += 1;
                    } else {
                        self.bin(i, j, BinOp::Zip);
                    }
                }
            }
            9 => {
                let n = 2 + self.t.draw(2) as usize;
                let a = self.attrs[i].take().unwrap();
                self.steps.push(Step::Split(i, n));
                for _ in 0..n {
                    self.attrs.push(Some(a.clone()));
                }
                self.nsteps += 1;
            }
            10 => {
                let n = 1 + self.t.draw(3) as usize;
                let preds: Vec<PredFn> = (0..n)
                    .map(|_| {
                        [
                            PredFn::VMod(4, 0),
                            PredFn::VMod(3, 0),
                            PredFn::KeyLt(0),
                            PredFn::IdBit(0),
                            PredFn::True,
                            PredFn::False,
                        ][self.t.draw(6) as usize]
                    })
                    .collect();
                let a = self.attrs[i].take().unwrap();
                self.steps.push(Step::Route(i, preds));
                for _ in 0..n {
                    self.attrs.push(Some(a.clone()));
                }
                self.nsteps += 1;
            }
            11 => {
                self.gen_loop(i, false);
            }
            12 => {
                self.un(i, UnOp::Broadcast);
            }
            _ => {
                let op = self.gen_count_window();
                self.un(i, op);
            }
        }
    }

    /// a loop over stream i; the body is generated with a nested generator sharing the tape
    pub fn gen_loop(&mut self, i: usize, side_input: bool) -> Vec<usize> {
        let i = self.unlimited(i);
        let iterate = self.t.draw(2) == 1;
        let rounds = 1 + self.t.draw(5) as usize;
        let agg = [AggFn::Sum, AggFn::Count, AggFn::Xor, AggFn::Max][self.t.draw(4) as usize];
        let (stop_mod, stop_rem) = if self.t.draw(3) == 2 {
            (2 + self.t.draw(3) as i64, self.t.draw(2) as i64)
        } else {
            (0, 0)
        };
        let use_state = self.t.draw(2) == 1;
        let cond_sleep_us = [0u64, 0, 200, 20_000, 120_000][self.t.draw(5) as usize];
        // body
        let nbody = 1 + self.t.draw(3) as usize;
        let mut body: Vec<Step> = vec![];
        let mut cur = 0usize; // local stream id
        let mut nlocal = 1usize;
        let mut side_used = false;
        let mut cur_repl = Repl::Unlimited;
        fn push_un(body: &mut Vec<Step>, cur: &mut usize, nlocal: &mut usize, cur_repl: &mut Repl, op: UnOp) {
            *cur_repl = match &op {
                UnOp::Shuffle | UnOp::Gb(..) | UnOp::Broadcast | UnOp::Win(..) | UnOp::Extra(ExtraOp::KeyedChain(..)) | UnOp::Extra(ExtraOp::UniqueKeys) => Repl::Unlimited,
                UnOp::Repl(r) | UnOp::RepartBy(r, _) => *r,
                UnOp::Gl(..) | UnOp::WinAll(..) => Repl::One,
                _ => *cur_repl,
            };
            body.push(Step::Un(*cur, op));
            *cur = *nlocal;
            *nlocal += 1;
        }
        for _ in 0..nbody {
            let k = self.t.draw(if side_input && !side_used { 7 } else { 6 });
            let op = match k {
                0 | 1 => Some(self.gen_map()),
                2 => Some(UnOp::Shuffle),
                3 => Some(match self.gen_gb() {
                    // a keyed rich_map keeps its per-key state across iterations by design
                    UnOp::Gb(GbForm::RichCounter, a) => UnOp::Gb(GbForm::Fold, a),
                    o => o,
                }),
                4 => Some(UnOp::Batch(gen_bm(self.t, self.p.small_batches))),
                5 => Some(self.gen_gl()),
                _ => None,
            };
            match op {
                Some(UnOp::FlatMap(_)) if iterate => {
                    // keep iterate bodies from growing exponentially
                    push_un(&mut body, &mut cur, &mut nlocal, &mut cur_repl, UnOp::Map(MapFn::Add(1)));
                }
                Some(op) => push_un(&mut body, &mut cur, &mut nlocal, &mut cur_repl, op),
                None => {
                    // combine with a side input: a fresh source outside the loop
                    let n = [0usize, 1, 3, 40, 300][self.t.draw(5) as usize];
                    let keys = self.gen_keys();
                    let par = self.t.draw(2) == 1;
                    let sid = self.add_source(par, n, keys);
                    let sid = self.unlimited(sid);
                    self.attrs[sid].take();
                    let in_len = self.attrs[i].as_ref().map(|a| a.len).unwrap_or(0);
                    let est = in_len * 2 * n / (keys as usize).max(1);
                    let bop = if self.t.draw(2) == 0 || iterate || est > 4000 {
                        BinOp::Merge
                    } else {
                        self.gen_join()
                    };
                    if matches!(bop, BinOp::Merge) && cur_repl != Repl::Unlimited {
                        push_un(&mut body, &mut cur, &mut nlocal, &mut cur_repl, UnOp::Shuffle);
                    }
                    cur_repl = match &bop {
                        BinOp::Join(_, JoinForm::BcastHash) | BinOp::Join(_, JoinForm::BcastSortMerge) => cur_repl,
                        _ => Repl::Unlimited,
                    };
                    body.push(Step::Bin(cur, SIDE_BASE + sid, bop));
                    cur = nlocal;
                    nlocal += 1;
                    side_used = true;
                }
            }
        }
        if iterate && cur_repl != Repl::Unlimited {
            push_un(&mut body, &mut cur, &mut nlocal, &mut cur_repl, UnOp::Shuffle);
        }
        let a = self.attrs[i].take().unwrap();
        let spec = LoopSpec {
            iterate,
            rounds,
            stop_mod,
            stop_rem,
            agg,
            body,
            body_out: cur,
            use_state,
            cond_sleep_us,
        };
        self.steps.push(Step::Loop(i, spec));
        self.nsteps += 1;
        let mut outs = vec![];
        self.attrs.push(Some(Attr { repl: Repl::One, depth: a.depth, len: 1, keys: 1 }));
        outs.push(self.attrs.len() - 1);
        if iterate {
            self.attrs.push(Some(Attr { repl: Repl::Unlimited, depth: a.depth, len: a.len * 2, keys: a.keys.max(50) }));
            outs.push(self.attrs.len() - 1);
        }
        outs
    }

    pub fn close_with_sinks(&mut self) {
        for i in self.open() {
            let k = self.p.sinks[self.t.draw(self.p.sinks.len() as u32) as usize];
            self.attrs[i].take();
            self.steps.push(Step::Sink(i, k));
        }
    }

    pub fn finish(mut self) -> Scenario {
        self.close_with_sinks();
        let bm = gen_bm(self.t, self.p.small_batches);
        let knobs = gen_knobs(self.t, self.p.faults, &self.layout);
        Scenario {
            family: self.p.family.to_string(),
            layout: self.layout,
            bm,
            sources: self.sources,
            steps: self.steps,
            knobs,
            crash: None,
            range_cases: vec![],
            client_grace_us: 0,
            stream_until_failure: false,
        }
    }
}

/// the general pipeline family
pub fn gen_pipe(t: &mut Tape, p: Profile) -> Scenario {
    let mut g = Gen::new(t, p.clone());
    let nsrc = 1 + g.t.draw(3) as usize;
    for _ in 0..nsrc {
        let par = g.t.draw(3) != 0;
        let n = g.gen_len();
        let keys = g.gen_keys();
        g.add_source(par, n, keys);
    }
    let nsteps = g.t.draw(p.max_steps as u32 + 1) as usize;
    for _ in 0..nsteps {
        g.grow(true);
    }
    g.finish()
}
