//! Driver: fans runs out to worker processes, minimises and persists violations, writes evidence.

use std::collections::{BTreeMap, BTreeSet};
use std::io::{BufRead, BufReader, Write};
use std::process::{Child, ChildStdin, ChildStdout, Command, Stdio};
use std::sync::atomic::{AtomicU64, Ordering};
use std::sync::{Arc, Mutex};
use std::time::{Duration, Instant};

use serde::{Deserialize, Serialize};
use serde_json::json;

use crate::families;
use crate::known;
use crate::oracle::Violation;
use crate::plan::Scenario;
use crate::worker::{self, Job, Report, Tapes};

// ---------------------------------------------------------------------------------------------
// worker processes
// ---------------------------------------------------------------------------------------------

pub struct WorkerProc {
    child: Child,
    stdin: ChildStdin,
    stdout: BufReader<ChildStdout>,
    cpu: usize,
}

impl WorkerProc {
    pub fn spawn(cpu: usize) -> WorkerProc {
        let exe = std::env::current_exe().expect("current_exe");
        let mut child = Command::new(exe)
            .arg("worker")
            .stdin(Stdio::piped())
            .stdout(Stdio::piped())
            .stderr(Stdio::inherit())
            .spawn()
            .expect("cannot spawn worker");
        let stdin = child.stdin.take().unwrap();
        let stdout = BufReader::new(child.stdout.take().unwrap());
        WorkerProc {
            child,
            stdin,
            stdout,
            cpu,
        }
    }

    /// run one job; `None` if the worker died without answering
    pub fn run(&mut self, job: &Job) -> Option<Report> {
        let mut job = job.clone();
        job.cpu = Some(self.cpu);
        let line = serde_json::to_string(&job).unwrap();
        if writeln!(self.stdin, "{}", line).is_err() || self.stdin.flush().is_err() {
            return None;
        }
        let mut buf = String::new();
        match self.stdout.read_line(&mut buf) {
            Ok(0) | Err(_) => None,
            Ok(_) => serde_json::from_str::<Report>(&buf).ok(),
        }
    }

    pub fn kill(mut self) {
        let _ = self.child.kill();
        let _ = self.child.wait();
    }
}

/// Run one job on a worker slot, respawning the process when needed.
pub fn run_on(slot: &mut Option<WorkerProc>, cpu: usize, job: &Job) -> Report {
    for _attempt in 0..2 {
        if slot.is_none() {
            *slot = Some(WorkerProc::spawn(cpu));
        }
        let w = slot.as_mut().unwrap();
        match w.run(job) {
            Some(rep) => {
                if rep.exiting {
                    if let Some(w) = slot.take() {
                        // it exits by itself; reap it
                        let mut w = w;
                        let _ = w.child.wait();
                    }
                }
                return rep;
            }
            None => {
                if let Some(w) = slot.take() {
                    w.kill();
                }
            }
        }
    }
    let mut r = Report::default();
    r.prop = job.prop.clone();
    r.run = job.run;
    r.verdict = "WorkerDied".into();
    r.harness_error = Some("worker process died twice on this job (crash, abort or stack overflow)".into());
    r
}

pub fn n_workers() -> usize {
    std::env::var("VERIF_WORKERS")
        .ok()
        .and_then(|s| s.parse().ok())
        .unwrap_or_else(|| std::thread::available_parallelism().map(|n| n.get()).unwrap_or(4))
}

/// run many jobs in parallel; the callback sees every report (in completion order)
pub fn run_batch(jobs: Vec<Job>, mut on_report: impl FnMut(&Job, Report) + Send) {
    let n = n_workers().min(jobs.len().max(1));
    let next = AtomicU64::new(0);
    let jobs = Arc::new(jobs);
    let cb = Mutex::new(&mut on_report);
    std::thread::scope(|s| {
        for wi in 0..n {
            let jobs = jobs.clone();
            let next = &next;
            let cb = &cb;
            s.spawn(move || {
                let mut slot: Option<WorkerProc> = None;
                loop {
                    let i = next.fetch_add(1, Ordering::Relaxed) as usize;
                    if i >= jobs.len() {
                        break;
                    }
                    let rep = run_on(&mut slot, wi, &jobs[i]);
                    let mut g = cb.lock().unwrap();
                    (g)(&jobs[i], rep);
                }
                if let Some(w) = slot.take() {
                    w.kill();
                }
            });
        }
    });
}

// ---------------------------------------------------------------------------------------------
// replay files
// ---------------------------------------------------------------------------------------------

#[derive(Clone, Debug, Serialize, Deserialize)]
pub struct ReplayFile {
    pub property: String,
    pub seed: u64,
    pub run: u64,
    pub class: String,
    pub message: String,
    pub tapes: Tapes,
    pub log_hash: u64,
    pub steps: u64,
    pub vtime_ns: u64,
    pub minimised: bool,
    pub scenario: Option<Scenario>,
    pub brief: String,
}

pub fn class_key(class: &str) -> String {
    // the first two components identify the violation class for minimisation purposes
    class.split('/').take(2).collect::<Vec<_>>().join("/")
}

fn job_with_tapes(prop: &str, seed: u64, run: u64, tapes: Tapes) -> Job {
    Job {
        prop: prop.to_string(),
        seed,
        run,
        tapes: Some(tapes),
        want_tapes: false,
        want_scenario: true,
        cpu: None,
        oracle: None,
        scenario: None,
    }
}

// ---------------------------------------------------------------------------------------------
// minimiser: tape shrinking, one stream at a time
// ---------------------------------------------------------------------------------------------

pub struct Minimiser {
    prop: String,
    seed: u64,
    run: u64,
    key: String,
    deadline: Instant,
    pub evals: u64,
    slots: Vec<Option<WorkerProc>>,
}

impl Minimiser {
    fn fails(&mut self, cands: Vec<Tapes>) -> Option<(usize, Report)> {
        // evaluate candidates in parallel, return the first (lowest index) that still fails
        if cands.is_empty() {
            return None;
        }
        let n = self.slots.len().min(cands.len());
        let results: Mutex<Vec<Option<Report>>> = Mutex::new(vec![None; cands.len()]);
        let next = AtomicU64::new(0);
        let prop = self.prop.clone();
        let (seed, run) = (self.seed, self.run);
        let mut slots: Vec<Option<WorkerProc>> = self.slots.drain(..).collect();
        let cands_ref = &cands;
        std::thread::scope(|s| {
            for (wi, slot) in slots.iter_mut().enumerate().take(n) {
                let next = &next;
                let results = &results;
                let prop = prop.clone();
                s.spawn(move || loop {
                    let i = next.fetch_add(1, Ordering::Relaxed) as usize;
                    if i >= cands_ref.len() {
                        break;
                    }
                    let job = job_with_tapes(&prop, seed, run, cands_ref[i].clone());
                    let rep = run_on(slot, wi, &job);
                    results.lock().unwrap()[i] = Some(rep);
                });
            }
        });
        self.slots = slots;
        self.evals += cands.len() as u64;
        let results = results.into_inner().unwrap();
        for (i, r) in results.into_iter().enumerate() {
            if let Some(r) = r {
                if r.harness_error.is_none() && r.violations.iter().any(|v| class_key(&v.class) == self.key) {
                    return Some((i, r));
                }
            }
        }
        None
    }

    fn shrink_stream(&mut self, cur: &mut Tapes, which: usize) {
        let get = |t: &Tapes| -> Vec<u32> {
            match which {
                0 => t.w.clone(),
                1 => t.f.clone(),
                _ => t.s.clone(),
            }
        };
        let set = |t: &Tapes, v: Vec<u32>| -> Tapes {
            let mut n = t.clone();
            match which {
                0 => n.w = v,
                1 => n.f = v,
                _ => n.s = v,
            }
            n
        };
        // 1. truncation (draws past the end are 0)
        loop {
            if Instant::now() > self.deadline {
                return;
            }
            let v = get(cur);
            if v.is_empty() {
                break;
            }
            let lens: BTreeSet<usize> = [0, v.len() / 8, v.len() / 4, v.len() / 2, v.len() * 3 / 4, v.len() - 1]
                .into_iter()
                .filter(|l| *l < v.len())
                .collect();
            let cands: Vec<Tapes> = lens.iter().map(|l| set(cur, v[..*l].to_vec())).collect();
            match self.fails(cands) {
                Some((i, _)) => {
                    let l = *lens.iter().nth(i).unwrap();
                    *cur = set(cur, v[..l].to_vec());
                }
                None => break,
            }
        }
        // 2. zero / delete blocks, 3. lower single values
        let mut block = (get(cur).len() / 2).max(1);
        while block >= 1 {
            if Instant::now() > self.deadline {
                return;
            }
            let v = get(cur);
            if v.is_empty() {
                break;
            }
            let mut progressed = false;
            let mut cands = vec![];
            let mut descr = vec![];
            let mut pos = 0;
            while pos < v.len() && cands.len() < 64 {
                let end = (pos + block).min(v.len());
                if v[pos..end].iter().any(|x| *x != 0) {
                    let mut z = v.clone();
                    for x in &mut z[pos..end] {
                        *x = 0;
                    }
                    cands.push(set(cur, z));
                    descr.push(0);
                }
                let mut d = v.clone();
                d.drain(pos..end);
                cands.push(set(cur, d));
                descr.push(1);
                pos = end;
            }
            if let Some((i, _)) = self.fails(cands.clone()) {
                *cur = cands[i].clone();
                progressed = true;
            }
            if !progressed {
                if block == 1 {
                    break;
                }
                block /= 2;
            }
        }
        // lower values
        for _round in 0..2 {
            if Instant::now() > self.deadline {
                return;
            }
            let v = get(cur);
            let mut cands = vec![];
            for (i, x) in v.iter().enumerate() {
                if *x > 0 && cands.len() < 96 {
                    let mut z = v.clone();
                    z[i] = x / 2;
                    cands.push(set(cur, z));
                }
            }
            match self.fails(cands.clone()) {
                Some((i, _)) => *cur = cands[i].clone(),
                None => break,
            }
        }
    }
}

pub fn minimise(prop: &str, seed: u64, run: u64, start: &Report, key: &str, budget: Duration) -> (Tapes, Report, u64) {
    let mut m = Minimiser {
        prop: prop.to_string(),
        seed,
        run,
        key: key.to_string(),
        deadline: Instant::now() + budget,
        evals: 0,
        slots: (0..n_workers()).map(|_| None).collect(),
    };
    let mut cur = start.tapes.clone().unwrap_or_default();
    // confirm that replaying the recorded tapes reproduces at all
    let first = m.fails(vec![cur.clone()]);
    let mut best = match first {
        Some((_, r)) => r,
        None => {
            for s in m.slots.drain(..).flatten() {
                s.kill();
            }
            return (cur, start.clone(), m.evals);
        }
    };
    for _pass in 0..2 {
        let before = (cur.w.len(), cur.f.len(), cur.s.len());
        for which in 0..3 {
            m.shrink_stream(&mut cur, which);
        }
        if (cur.w.len(), cur.f.len(), cur.s.len()) == before || Instant::now() > m.deadline {
            break;
        }
    }
    if let Some((_, r)) = m.fails(vec![cur.clone()]) {
        best = r;
    }
    for s in m.slots.drain(..).flatten() {
        s.kill();
    }
    (cur, best, m.evals)
}

// ---------------------------------------------------------------------------------------------
// check
// ---------------------------------------------------------------------------------------------

fn arg_val(args: &[String], name: &str) -> Option<String> {
    args.iter().position(|a| a == name).and_then(|i| args.get(i + 1).cloned())
}

pub fn env_seed() -> u64 {
    std::env::var("VERIF_SEED")
        .ok()
        .and_then(|s| s.parse::<i64>().ok())
        .map(|x| x as u64)
        .unwrap_or(20260923)
}

#[derive(Default)]
struct Agg {
    evaluations: u64,
    completed: u64,
    deadlock: u64,
    budget: u64,
    harness_errors: Vec<String>,
    steps: u64,
    switches: u64,
    vtime_ns: u128,
    threads: u64,
    link_batches: u64,
    fired: BTreeMap<String, u64>,
    runs_with_fault: BTreeMap<String, u64>,
    counters: BTreeMap<String, u64>,
    distinct: BTreeSet<(u64, u64)>,
    distinct_nontrivial: BTreeSet<(u64, u64)>,
    distinct_workloads: BTreeSet<u64>,
    distinct_schedules: BTreeSet<u64>,
    samples: Vec<serde_json::Value>,
    violations: Vec<(Report, Violation)>,
    real_ms: f64,
    runs_with_panic: u64,
}

/// a compact, human-readable rendering of a scenario for the evidence file (element lists are
/// summarised; replay files hold the tapes that regenerate everything)
pub fn sample_of(sc: &Scenario) -> serde_json::Value {
    use crate::plan::Src;
    let sources: Vec<serde_json::Value> = sc
        .sources
        .iter()
        .map(|s| match s {
            Src::Iter(v) => json!({"kind": "IteratorSource", "elements": v.len(), "first": v.iter().take(2).map(|e| json!({"id": e.id, "key": e.key, "v": e.v, "pad_bytes": e.pad.len()})).collect::<Vec<_>>()}),
            Src::ParIter(v) => json!({"kind": "ParallelIteratorSource", "elements": v.len(), "first": v.iter().take(2).map(|e| json!({"id": e.id, "key": e.key, "v": e.v, "pad_bytes": e.pad.len()})).collect::<Vec<_>>()}),
            Src::Scripted(scr, r) => json!({"kind": "ScriptedSource", "replication": format!("{:?}", r), "script_lengths": scr.iter().map(|x| x.len()).collect::<Vec<_>>(), "first_script_head": scr.first().map(|x| x.iter().take(6).map(|ev| format!("{:?}", ev)).map(|s| s.chars().take(90).collect::<String>()).collect::<Vec<_>>())}),
            Src::Channel(b) => json!({"kind": "ChannelSource", "bursts": b.iter().map(|(p, v)| json!({"pause_us": p, "elements": v.len()})).collect::<Vec<_>>()}),
            Src::File(c) => json!({"kind": "FileSource", "bytes": c.len(), "head": String::from_utf8_lossy(&c[..c.len().min(60)])}),
            Src::Csv(c, h) => json!({"kind": "CsvSource", "bytes": c.len(), "has_headers": h, "head": String::from_utf8_lossy(&c[..c.len().min(60)])}),
            Src::Range(a, b) => json!({"kind": "Range", "start": a, "end": b}),
        })
        .collect();
    json!({
        "family": sc.family,
        "layout": format!("{:?}", sc.layout),
        "batch_mode": format!("{:?}", sc.bm),
        "sources": sources,
        "plan": sc.steps.iter().map(crate::plan::step_brief).collect::<Vec<_>>(),
        "knobs": sc.knobs,
        "crash": sc.crash,
    })
}

pub fn check_main(args: &[String]) -> i32 {
    if args.is_empty() {
        eprintln!("check: missing property id");
        return 2;
    }
    let prop = args[0].clone();
    if !families::ALL_PROPS.contains(&prop.as_str()) {
        eprintln!("check: unknown property {prop}");
        return 2;
    }
    let tier = arg_val(args, "--tier")
        .or_else(|| std::env::var("VERIF_TIER").ok())
        .unwrap_or_else(|| "quick".into());
    let tier = if tier == "thorough" { "thorough" } else { "quick" };
    let seed = arg_val(args, "--seed").and_then(|s| s.parse::<i64>().ok()).map(|x| x as u64).unwrap_or_else(env_seed);
    let (q, th) = families::runs(&prop);
    let runs = arg_val(args, "--runs")
        .and_then(|s| s.parse().ok())
        .unwrap_or(if tier == "thorough" { th } else { q });
    println!("noirsim check property={prop} tier={tier} VERIF_SEED={seed} runs={runs} workers={}", n_workers());
    let t0 = Instant::now();

    let known = known::load();
    let mut jobs = Vec::new();
    for r in 0..runs {
        jobs.push(Job {
            prop: prop.clone(),
            seed,
            run: r,
            tapes: None,
            want_tapes: false,
            want_scenario: r < 3,
            cpu: None,
            oracle: None,
            scenario: None,
        });
    }
    // witness scenarios of known findings: a handful of schedules each, so that the finding is
    // reported (as KNOWN-FINDING) for as long as the defect exists
    if let Ok(rd) = std::fs::read_dir(known::verif_root().join("witness")) {
        let mut files: Vec<_> = rd.flatten().map(|e| e.path()).collect();
        files.sort();
        for (wi, f) in files.iter().enumerate() {
            let Ok(txt) = std::fs::read_to_string(f) else { continue };
            let Ok(v) = serde_json::from_str::<serde_json::Value>(&txt) else { continue };
            if v["property"].as_str() != Some(prop.as_str()) {
                continue;
            }
            let Ok(sc) = serde_json::from_value::<Scenario>(v["scenario"].clone()) else { continue };
            // a recorded schedule, when the finding needs a rare one
            if let Ok(tapes) = serde_json::from_value::<Tapes>(v["tapes"].clone()) {
                jobs.push(Job {
                    prop: prop.clone(),
                    seed,
                    run: 1_000_000 + (wi as u64) * 100 + 99,
                    tapes: Some(tapes),
                    want_tapes: false,
                    want_scenario: false,
                    cpu: None,
                    oracle: None,
                    scenario: Some(sc.clone()),
                });
            }
            for k in 0..6u64 {
                jobs.push(Job {
                    prop: prop.clone(),
                    seed,
                    run: 1_000_000 + (wi as u64) * 100 + k,
                    tapes: None,
                    want_tapes: false,
                    want_scenario: false,
                    cpu: None,
                    oracle: None,
                    scenario: Some(sc.clone()),
                });
            }
        }
    }
    let agg = Mutex::new(Agg::default());
    run_batch(jobs, |_job, rep| {
        let mut a = agg.lock().unwrap();
        a.evaluations += 1;
        match rep.verdict.as_str() {
            "Completed" => a.completed += 1,
            "Deadlock" => a.deadlock += 1,
            "Budget" => {
                a.budget += 1;
                if a.budget <= 5 {
                    println!("note: run {} exhausted the step/time budget ({} steps)", rep.run, rep.steps);
                }
            }
            _ => {}
        }
        if let Some(e) = &rep.harness_error {
            if a.harness_errors.len() < 5 {
                a.harness_errors.push(format!("run {}: {}", rep.run, e));
            } else {
                a.harness_errors.push(String::new());
            }
        }
        a.steps += rep.steps;
        a.switches += rep.switches;
        a.vtime_ns += rep.vtime_ns as u128;
        a.threads += rep.threads as u64;
        a.link_batches += rep.link_batches;
        a.real_ms += rep.real_ms;
        if !rep.panics.is_empty() {
            a.runs_with_panic += 1;
        }
        for (k, v) in &rep.fired {
            *a.fired.entry(k.clone()).or_default() += v;
            *a.runs_with_fault.entry(k.clone()).or_default() += 1;
        }
        for (k, v) in &rep.counters {
            *a.counters.entry(k.clone()).or_default() += v;
        }
        a.distinct.insert((rep.workload_hash, rep.sched_hash));
        a.distinct_workloads.insert(rep.workload_hash);
        a.distinct_schedules.insert(rep.sched_hash);
        if rep.nontrivial {
            a.distinct_nontrivial.insert((rep.workload_hash, rep.sched_hash));
        }
        if a.samples.len() < 3 {
            if let Some(sc) = &rep.scenario {
                a.samples.push(json!({"run": rep.run, "verdict": rep.verdict, "steps": rep.steps, "threads": rep.threads, "virtual_time_ns": rep.vtime_ns, "scenario": sample_of(sc)}));
            }
        }
        for v in &rep.violations {
            a.violations.push((rep.clone(), v.clone()));
        }
    });
    let mut a = agg.into_inner().unwrap();
    a.violations.sort_by_key(|(r, _)| r.run);

    // group violations by class key; minimise the first of each class
    let mut by_class: BTreeMap<String, Vec<(Report, Violation)>> = BTreeMap::new();
    for (r, v) in a.violations.drain(..) {
        by_class.entry(class_key(&v.class)).or_default().push((r, v));
    }
    let mut violation_lines = vec![];
    let mut known_lines = BTreeSet::new();
    let mut unknown_violations = 0u64;
    let replay_dir = known::verif_root().join("replays");
    let _ = std::fs::create_dir_all(&replay_dir);
    let mut minimised_budget = 6;
    for (key, list) in &by_class {
        // a class may mix occurrences that belong to a known finding with others that do not:
        // attribute per occurrence, on the minimised scenario of a representative when possible
        let mut reported_unknown = false;
        for (rep, v) in list.iter() {
            let direct = known::attribute(&known, &prop, &v.class, rep.scenario.as_ref());
            if let Some(f) = direct {
                known_lines.insert(format!("KNOWN-FINDING: property={} {} [{}]", prop, f.description, f.id));
                continue;
            }
            if reported_unknown {
                unknown_violations += 1;
                continue;
            }
            // unknown so far: minimise, then try attribution again on the minimised scenario
            let (tapes, best, evals) = if minimised_budget > 0 {
                minimised_budget -= 1;
                minimise(&prop, seed, rep.run, rep, key, Duration::from_secs(if tier == "thorough" { 120 } else { 45 }))
            } else {
                (rep.tapes.clone().unwrap_or_default(), rep.clone(), 0)
            };
            let bv = best
                .violations
                .iter()
                .find(|x| class_key(&x.class) == *key)
                .cloned()
                .unwrap_or_else(|| v.clone());
            if let Some(f) = known::attribute(&known, &prop, &bv.class, best.scenario.as_ref()) {
                known_lines.insert(format!("KNOWN-FINDING: property={} {} [{}]", prop, f.description, f.id));
                continue;
            }
            unknown_violations += 1;
            reported_unknown = true;
            let file = replay_dir.join(format!("{}-{}-{}.json", prop, seed, rep.run));
            let rf = ReplayFile {
                property: prop.clone(),
                seed,
                run: rep.run,
                class: bv.class.clone(),
                message: bv.msg.clone(),
                tapes,
                log_hash: best.log_hash,
                steps: best.steps,
                vtime_ns: best.vtime_ns,
                minimised: evals > 0,
                scenario: best.scenario.clone(),
                brief: best.brief.clone(),
            };
            let _ = std::fs::write(&file, serde_json::to_string_pretty(&rf).unwrap());
            println!("--- violation class {} (first seen in run {}, {} occurrences, minimiser evaluations {})", bv.class, rep.run, list.len(), evals);
            println!("    {}", bv.msg.replace('\n', "\n    "));
            println!("    scenario: {}", best.brief);
            violation_lines.push(format!("VIOLATION property={} replay={}", prop, file.display()));
        }
    }

    let wall = t0.elapsed().as_secs_f64();
    let harness_errors = a.harness_errors.len();
    // evidence
    let evidence = json!({
        "property_id": prop,
        "tier": tier,
        "seed": seed as i64,
        "level": families::level(&prop),
        "coverage": {
            "evaluations": a.evaluations,
            "distinct_nontrivial": a.distinct_nontrivial.len(),
            "rule": families::rule(&prop),
            "samples": a.samples,
            "distinct_cases": a.distinct.len(),
            "distinct_workloads": a.distinct_workloads.len(),
            "distinct_interleavings": a.distinct_schedules.len(),
            "interleaving_measure": "FNV hash of the sequence of thread ids the baton was handed to (one entry per context switch)",
            "runs_completed": a.completed,
            "runs_deadlocked": a.deadlock,
            "runs_out_of_budget": a.budget,
            "runs_with_a_panicking_thread": a.runs_with_panic,
            "harness_errors": harness_errors,
            "simulated_runs_per_hour": if wall > 0.0 { (a.evaluations as f64 / wall * 3600.0) as u64 } else { 0 },
            "simulated_time_covered_s": (a.vtime_ns as f64) / 1e9,
            "scheduling_steps": a.steps,
            "context_switches": a.switches,
            "simulated_threads": a.threads,
            "link_batches_delivered": a.link_batches,
            "fault_kinds_fired": a.fired,
            "runs_in_which_fault_kind_fired": a.runs_with_fault,
            "reach_probes": a.counters,
            "components": {
                "real": "all of /repo/src compiled unmodified with --cfg renoir_verif: scheduler, topology, Start/End, batcher, multiplexer/demultiplexer and their framing, all operators, sources, sinks, iteration leader/state handler",
                "stub": "flume (in-memory channels), std thread/Mutex/Condvar/Barrier, std::time::Instant and coarsetime (virtual clock), kernel TCP (in-process byte streams), nanorand (schedule tape), file reads (real file, simulated read sizes)"
            }
        },
        "assumptions": [
            "the simulated channel, thread, mutex/condvar/barrier and TCP stubs behave like flume 0.11, std and kernel TCP (FIFO, no loss) - bugs inside those are out of scope",
            "interleavings are explored at the granularity of intercepted operations; code between two intercepted operations is atomic",
            "a clean batch of sampled executions is evidence, not proof"
        ],
        "wall_s": wall,
        "violations": unknown_violations,
        "known_findings_seen": known_lines.iter().cloned().collect::<Vec<_>>(),
    });
    // (sensitivity experiments against seeded changes write their evidence elsewhere)
    let evdir = std::env::var("VERIF_EVIDENCE_DIR").map(std::path::PathBuf::from).unwrap_or_else(|_| known::verif_root().join("evidence"));
    let _ = std::fs::create_dir_all(&evdir);
    let _ = std::fs::write(evdir.join(format!("{}.json", prop)), serde_json::to_string_pretty(&evidence).unwrap());

    println!(
        "runs={} completed={} deadlock={} budget={} steps={} switches={} sim_time={:.3}s wall={:.1}s distinct_nontrivial={}",
        a.evaluations,
        a.completed,
        a.deadlock,
        a.budget,
        a.steps,
        a.switches,
        (a.vtime_ns as f64) / 1e9,
        wall,
        a.distinct_nontrivial.len()
    );
    for l in &known_lines {
        println!("{}", l);
    }
    if harness_errors > 0 {
        for e in a.harness_errors.iter().filter(|e| !e.is_empty()) {
            eprintln!("HARNESS-ERROR {}", e);
        }
    }
    // a violation with a replay file stands on its own (the replay reproduces it), whatever else
    // went wrong in other runs of the batch
    if !violation_lines.is_empty() {
        for l in &violation_lines {
            println!("{}", l);
        }
        return 1;
    }
    if harness_errors > 0 {
        eprintln!("{} harness errors: a clean result of this batch is not trustworthy", harness_errors);
        return 2;
    }
    println!("OK property={} held on everything explored", prop);
    0
}

// ---------------------------------------------------------------------------------------------
// replay / one / selftest
// ---------------------------------------------------------------------------------------------

pub fn replay_main(args: &[String]) -> i32 {
    let Some(path) = args.first() else {
        eprintln!("replay: missing file");
        return 2;
    };
    let rf: ReplayFile = match std::fs::read_to_string(path).ok().and_then(|s| serde_json::from_str(&s).ok()) {
        Some(r) => r,
        None => {
            eprintln!("replay: cannot read {path}");
            return 2;
        }
    };
    let mut job = job_with_tapes(&rf.property, rf.seed, rf.run, rf.tapes.clone());
    let mut slot = None;
    let mut rep = run_on(&mut slot, 0, &job);
    if let Some(w) = slot.take() {
        w.kill();
    }
    // the workload tape decodes to the recorded scenario as long as the generators are the ones
    // that wrote the file; after a change of the generators the recorded scenario is used as it is
    if let (Some(rec), Some(now)) = (&rf.scenario, &rep.scenario) {
        if serde_json::to_string(rec).ok() != serde_json::to_string(now).ok() {
            println!("note: the workload generators changed since this file was written; replaying the recorded scenario");
            job.scenario = Some(rec.clone());
            let mut slot = None;
            rep = run_on(&mut slot, 0, &job);
            if let Some(w) = slot.take() {
                w.kill();
            }
        }
    }
    println!("replay property={} run={} verdict={} steps={} log_hash={:016x} (recorded {:016x})", rf.property, rf.run, rep.verdict, rep.steps, rep.log_hash, rf.log_hash);
    println!("scenario: {}", rep.brief);
    if let Some(e) = &rep.harness_error {
        eprintln!("HARNESS-ERROR {}", e);
        return 2;
    }
    let key = class_key(&rf.class);
    match rep.violations.iter().find(|v| class_key(&v.class) == key) {
        Some(v) => {
            println!("REPRODUCED class={} hash_match={}", v.class, rep.log_hash == rf.log_hash);
            println!("{}", v.msg);
            println!("VIOLATION property={} replay={}", rf.property, path);
            1
        }
        None => {
            println!("NOT REPRODUCED (recorded class {}); violations now: {:?}", rf.class, rep.violations.iter().map(|v| &v.class).collect::<Vec<_>>());
            0
        }
    }
}

pub fn one_main(args: &[String]) -> i32 {
    if args.len() < 2 {
        eprintln!("one: <Cxx> <run>");
        return 2;
    }
    let prop = args[0].clone();
    let run: u64 = args[1].parse().unwrap_or(0);
    let seed = arg_val(args, "--seed").and_then(|s| s.parse::<i64>().ok()).map(|x| x as u64).unwrap_or_else(env_seed);
    let job = Job {
        prop,
        seed,
        run,
        tapes: None,
        want_tapes: false,
        want_scenario: true,
        cpu: None,
        oracle: arg_val(args, "--oracle"),
        scenario: arg_val(args, "--scenario").and_then(|p| std::fs::read_to_string(p).ok()).and_then(|s| serde_json::from_str(&s).ok()),
    };
    let rep = worker::execute(&job);
    println!("{}", rep.brief);
    println!(
        "verdict={} steps={} switches={} threads={} vtime={}ns real={:.1}ms hash={:016x} nontrivial={}",
        rep.verdict, rep.steps, rep.switches, rep.threads, rep.vtime_ns, rep.real_ms, rep.log_hash, rep.nontrivial
    );
    println!("fired={:?}", rep.fired);
    println!("counters={:?}", rep.counters);
    for p in &rep.panics {
        println!("panic: {}", p);
    }
    for v in &rep.violations {
        println!("VIOLATION {}: {}", v.class, v.msg);
    }
    if args.iter().any(|a| a == "--verbose") {
        println!("{}", serde_json::to_string_pretty(&rep.scenario).unwrap());
    }
    if rep.violations.is_empty() {
        0
    } else {
        1
    }
}

/// determinism: every run executed twice in different worker processes must produce the same
/// event-log hash, verdict and violations
pub fn selftest_main(args: &[String]) -> i32 {
    let what = args.first().cloned().unwrap_or_default();
    if what == "oracles" {
        return selftest_oracles(args);
    }
    if what != "determinism" {
        eprintln!("selftest: `determinism` or `oracles`");
        return 2;
    }
    let runs: u64 = arg_val(args, "--runs").and_then(|s| s.parse().ok()).unwrap_or(100);
    let seed = env_seed();
    let props: Vec<String> = match arg_val(args, "--props") {
        Some(p) => p.split(',').map(|s| s.to_string()).collect(),
        None => families::ALL_PROPS.iter().map(|s| s.to_string()).collect(),
    };
    let mut jobs = vec![];
    for p in &props {
        for r in 0..runs {
            for _rep in 0..2 {
                jobs.push(Job {
                    prop: p.clone(),
                    seed,
                    run: r,
                    tapes: None,
                    want_tapes: false,
                    want_scenario: false,
                    cpu: None,
            oracle: None,
            scenario: None,
                });
            }
        }
    }
    let seen: Mutex<BTreeMap<(String, u64), (u64, String, usize)>> = Mutex::new(BTreeMap::new());
    let diverged = Mutex::new(Vec::new());
    run_batch(jobs, |job, rep| {
        let mut s = seen.lock().unwrap();
        let key = (job.prop.clone(), job.run);
        let val = (rep.log_hash, rep.verdict.clone(), rep.violations.len());
        match s.get(&key) {
            Some(prev) => {
                if *prev != val {
                    diverged.lock().unwrap().push(format!("{} run {}: {:?} vs {:?}", job.prop, job.run, prev, val));
                }
            }
            None => {
                s.insert(key, val);
            }
        }
    });
    let d = diverged.into_inner().unwrap();
    println!("determinism: {} properties x {} runs x 2 executions, {} divergences", props.len(), runs, d.len());
    for l in d.iter().take(20) {
        println!("DIVERGED {}", l);
    }
    if d.is_empty() {
        0
    } else {
        2
    }
}


/// the oracles are not vacuous: with a substrate contract broken on purpose (the channel stub
/// drops or reorders messages) the link, result and termination oracles must fire
fn selftest_oracles(args: &[String]) -> i32 {
    let runs: u64 = arg_val(args, "--runs").and_then(|s| s.parse().ok()).unwrap_or(300);
    let seed = env_seed();
    let mut bad = 0;
    for (fault, props) in [("net_drop:20", vec!["C02", "C01", "C04"]), ("net_reorder:30", vec!["C02", "C16"])] {
        std::env::set_var("VERIF_SELFTEST_FAULT", fault);
        for p in props {
            let jobs: Vec<Job> = (0..runs)
                .map(|r| Job {
                    prop: p.to_string(),
                    seed,
                    run: r,
                    tapes: None,
                    want_tapes: false,
                    want_scenario: false,
                    cpu: None,
                    oracle: None,
                    scenario: None,
                })
                .collect();
            let n = Mutex::new((0u64, BTreeSet::new()));
            run_batch(jobs, |_j, rep| {
                let mut g = n.lock().unwrap();
                if !rep.violations.is_empty() {
                    g.0 += 1;
                    for v in &rep.violations {
                        g.1.insert(class_key(&v.class));
                    }
                }
            });
            let (cnt, classes) = n.into_inner().unwrap();
            println!("selftest oracles: fault {} property {}: {} of {} runs flagged, classes {:?}", fault, p, cnt, runs, classes);
            if cnt == 0 {
                bad += 1;
            }
        }
    }
    std::env::remove_var("VERIF_SELFTEST_FAULT");
    if bad == 0 {
        println!("selftest oracles: every oracle fired under its substrate fault");
        0
    } else {
        println!("selftest oracles: {} oracle(s) stayed silent", bad);
        2
    }
}


/// `noirsim stats <Cxx> [--runs N]`: how much of the generated workload the sequential reference
/// predicts exactly (no simulation: scenarios are only generated and interpreted)
pub fn stats_main(args: &[String]) -> i32 {
    use crate::refmodel::{Interp, RefSink};
    let Some(prop) = args.first().cloned() else { return 2 };
    let runs: u64 = arg_val(args, "--runs").and_then(|s| s.parse().ok()).unwrap_or(1000);
    let seed = env_seed();
    let (mut sinks, mut sinks_exact, mut loops, mut loops_pred, mut steps, mut steps_pred) = (0u64, 0u64, 0u64, 0u64, 0u64, 0u64);
    let mut fam: std::collections::BTreeMap<String, u64> = Default::default();
    let mut ops: std::collections::BTreeMap<String, u64> = Default::default();
    fn walk(steps: &[crate::plan::Step], depth: usize, ops: &mut std::collections::BTreeMap<String, u64>) {
        for st in steps {
            let name = match st {
                crate::plan::Step::Un(_, op) => format!("{:?}", op).split(|c| c == '(' || c == ' ' || c == '{').next().unwrap_or("").to_string(),
                crate::plan::Step::Bin(_, _, op) => format!("{:?}", op).split(|c| c == '(' || c == ' ' || c == '{').next().unwrap_or("").to_string(),
                crate::plan::Step::Loop(_, l) => {
                    walk(&l.body, depth + 1, ops);
                    if l.iterate { "iterate".to_string() } else { "replay".to_string() }
                }
                crate::plan::Step::Split(..) => "split".into(),
                crate::plan::Step::Route(..) => "route".into(),
                crate::plan::Step::Source(_) => "source".into(),
                crate::plan::Step::Sink(_, k) => format!("sink:{:?}", k),
            };
            *ops.entry(if depth > 0 { format!("{}@loop", name) } else { name }).or_default() += 1;
        }
    }
    for run in 0..runs {
        let wbase = simrt::tape::mix(simrt::tape::mix(seed, crate::worker::prop_hash(&prop)), families::workload_run(&prop, run));
        let mut wt = simrt::Tape::generate(simrt::tape::mix(wbase, 1));
        let sc = families::generate(&prop, run, &mut wt);
        *fam.entry(sc.family.clone()).or_default() += 1;
        walk(&sc.steps, 0, &mut ops);
        let r = Interp::run(&sc);
        for (_, s) in &r.sinks {
            sinks += 1;
            if !matches!(s, RefSink::Weak { .. }) {
                sinks_exact += 1;
            }
        }
        loops += r.loop_states_by_path.len() as u64;
        loops_pred += r.loop_states_by_path.keys().filter(|p| !r.unpredictable_loops.contains(*p)).count() as u64;
        for v in r.expect.values() {
            for e in v {
                steps += 1;
                if e.is_some() {
                    steps_pred += 1;
                }
            }
        }
    }
    println!("property={} runs={} families={:?}", prop, runs, fam);
    println!("sinks predicted exactly: {}/{}  outermost loops with predicted states: {}/{}  (step, iteration) outputs predicted exactly: {}/{}", sinks_exact, sinks, loops_pred, loops, steps_pred, steps);
    println!("operators drawn: {:?}", ops);
    0
}
