//! Transparent probe operator, scripted timestamped source and helpers living inside the job.

use std::fmt::Display;
use std::marker::PhantomData;
use std::sync::Arc;

use renoir::operator::source::Source;
use renoir::operator::{Operator, StreamElement};
use renoir::structure::{BlockStructure, OperatorKind, OperatorStructure};
use renoir::{ExecutionMetadata, Replication};
use serde::{Deserialize, Serialize};

use crate::elem::E;
use crate::rec::{self, CoordT, PRec, K_FAR, K_FB, K_ITEM, K_TERM, K_TS, K_WM};

/// lineage view of whatever type flows at a probe
pub trait Lin {
    fn lin(&self) -> (u64, u16, i64);
}

impl Lin for E {
    fn lin(&self) -> (u64, u16, i64) {
        (self.id, self.key, self.v)
    }
}
impl<T: Lin> Lin for (u16, T) {
    fn lin(&self) -> (u64, u16, i64) {
        let (id, _, v) = self.1.lin();
        (id, self.0, v)
    }
}
impl Lin for i64 {
    fn lin(&self) -> (u64, u16, i64) {
        (0, 0, *self)
    }
}
impl Lin for (i64, u64) {
    fn lin(&self) -> (u64, u16, i64) {
        (self.1, 0, self.0)
    }
}

pub struct Probe<T, O> {
    prev: O,
    id: u32,
    coord: CoordT,
    data_seen: u32,
    crash_at: Option<u32>,
    yield_permille: u32,
    _t: PhantomData<fn() -> T>,
}

impl<T, O: Clone> Clone for Probe<T, O> {
    fn clone(&self) -> Self {
        Probe {
            prev: self.prev.clone(),
            id: self.id,
            coord: self.coord,
            data_seen: 0,
            crash_at: None,
            yield_permille: self.yield_permille,
            _t: PhantomData,
        }
    }
}

impl<T, O: Display> Display for Probe<T, O> {
    fn fmt(&self, f: &mut std::fmt::Formatter<'_>) -> std::fmt::Result {
        write!(f, "{} -> Probe#{}", self.prev, self.id)
    }
}

impl<T, O> Probe<T, O> {
    pub fn new(prev: O, id: u32) -> Self {
        Probe {
            prev,
            id,
            coord: (0, 0, 0),
            data_seen: 0,
            crash_at: None,
            yield_permille: 0,
            _t: PhantomData,
        }
    }
}

impl<T: Lin + Send + 'static, O: Operator<Out = T>> Operator for Probe<T, O> {
    type Out = T;

    fn setup(&mut self, m: &mut ExecutionMetadata) {
        self.prev.setup(m);
        self.coord = (m.coord.block_id, m.coord.host_id, m.coord.replica_id);
        let id = self.id;
        let coord = self.coord;
        rec::with(|r| {
            r.probes.entry((id, coord)).or_default();
            self.yield_permille = r.probe_yield;
        });
    }

    fn next(&mut self) -> StreamElement<T> {
        let e = self.prev.next();
        let (kind, ts, (id, key, v)) = match &e {
            StreamElement::Item(t) => (K_ITEM, 0, t.lin()),
            StreamElement::Timestamped(t, ts) => (K_TS, *ts, t.lin()),
            StreamElement::Watermark(ts) => (K_WM, *ts, (0, 0, 0)),
            StreamElement::FlushBatch => (K_FB, 0, (0, 0, 0)),
            StreamElement::Terminate => (K_TERM, 0, (0, 0, 0)),
            StreamElement::FlushAndRestart => (K_FAR, 0, (0, 0, 0)),
        };
        let vt = simrt::rt::now_ns();
        let pid = self.id;
        let coord = self.coord;
        let data_seen = self.data_seen;
        let mut payload = 0u8;
        let crash = rec::with(|r| {
            r.seq += 1;
            let seq = r.seq;
            r.probes.entry((pid, coord)).or_default().push(PRec {
                seq,
                kind,
                ts,
                id,
                key,
                v,
                vt,
            });
            match &r.crash {
                Some(c) if r.n_probes > 0 && c.probe % r.n_probes == pid && !r.crash_fired => {
                    // replica ordinal = rank of this coord among the coords registered for the probe
                    let ord = r
                        .probes
                        .keys()
                        .filter(|(p, _)| *p == pid)
                        .position(|(_, c2)| *c2 == coord)
                        .unwrap_or(0) as u32;
                    let n_repl = r.probes.keys().filter(|(p, _)| *p == pid).count() as u32;
                    let hit = ord == c.replica_ordinal % n_repl.max(1)
                        && ((kind <= K_TS && data_seen == c.nth) || (kind == K_FAR && data_seen <= c.nth));
                    if hit {
                        payload = c.payload;
                        r.crash_fired = true;
                        r.crash_site = Some((pid, coord, data_seen));
                    }
                    hit
                }
                _ => false,
            }
        });
        if kind <= K_TS {
            self.data_seen += 1;
            // a data element moving through an operator chain is progress (a job that is still
            // producing results when the step budget runs out is a long run, not a hang)
            simrt::rt::progress();
        }
        if crash {
            simrt::rt::fired(simrt::Fk::UserPanic);
            match payload {
                1 => std::panic::panic_any(crate::rec::InjectedError(pid)),
                2 => panic!("injected user function panic"),
                _ => panic!("injected user function panic at probe {} {:?}", pid, coord),
            }
        }
        if self.yield_permille > 0 && (kind >= K_WM || simrt::rt::sched_draw(1000) < self.yield_permille) {
            simrt::yield_now();
        }
        e
    }

    fn structure(&self) -> BlockStructure {
        self.prev.structure()
    }
}

/// One step of a scripted source replica.
#[derive(Clone, Debug, Serialize, Deserialize, PartialEq, Eq)]
pub enum Ev {
    /// a timestamped element
    El(E),
    /// a plain (non timestamped) element
    It(E),
    Wm(i64),
    /// idle for this many microseconds of host time
    Pause(u64),
    /// emit a FlushBatch marker
    Flush,
}

/// A parallel source whose replica with global id g plays `scripts[g]` (nothing if absent),
/// then FlushAndRestart, then Terminate.
#[derive(Clone)]
pub struct ScriptedSource {
    scripts: Arc<Vec<Vec<Ev>>>,
    me: usize,
    pos: usize,
    state: u8,
    repl: Replication,
}

impl ScriptedSource {
    pub fn new(scripts: Vec<Vec<Ev>>, repl: Replication) -> Self {
        ScriptedSource {
            scripts: Arc::new(scripts),
            me: usize::MAX,
            pos: 0,
            state: 0,
            repl,
        }
    }
}

impl Display for ScriptedSource {
    fn fmt(&self, f: &mut std::fmt::Formatter<'_>) -> std::fmt::Result {
        write!(f, "ScriptedSource")
    }
}

impl Operator for ScriptedSource {
    type Out = E;

    fn setup(&mut self, m: &mut ExecutionMetadata) {
        self.me = m.global_id as usize;
    }

    fn next(&mut self) -> StreamElement<E> {
        loop {
            match self.state {
                0 => {
                    let script = self.scripts.get(self.me);
                    match script.and_then(|s| s.get(self.pos)) {
                        Some(ev) => {
                            self.pos += 1;
                            match ev {
                                Ev::El(e) => return StreamElement::Timestamped(e.clone(), e.ts),
                                Ev::It(e) => return StreamElement::Item(e.clone()),
                                Ev::Wm(t) => return StreamElement::Watermark(*t),
                                Ev::Pause(us) => {
                                    simrt::rt::sleep_local(us * 1000);
                                    continue;
                                }
                                Ev::Flush => return StreamElement::FlushBatch,
                            }
                        }
                        None => {
                            self.state = 1;
                            return StreamElement::FlushAndRestart;
                        }
                    }
                }
                _ => return StreamElement::Terminate,
            }
        }
    }

    fn structure(&self) -> BlockStructure {
        let mut operator = OperatorStructure::new::<E, _>("ScriptedSource");
        operator.kind = OperatorKind::Source;
        BlockStructure::default().add_operator(operator)
    }
}

impl Source for ScriptedSource {
    fn replication(&self) -> Replication {
        self.repl
    }
}
