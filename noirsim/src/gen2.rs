//! Generators for the time-aware families: scripted timestamped sources (timed), count windows
//! (cwin), processing-time / session windows (ptwin), sources (src), latency, graph, crash.

use simrt::Tape;

use crate::elem::*;
use crate::gen::*;
use crate::plan::*;
use crate::probe::Ev;

pub struct ScriptOpts {
    pub per_replica: usize,
    pub keys: u16,
    /// maximum disorder: element ts >= (running clock - bound)
    pub bound: i64,
    /// emit a watermark every `wm_every` elements (0 = never)
    pub wm_every: usize,
    /// align extra watermarks on multiples of this (window size), 0 = none
    pub align: i64,
    pub gaps: bool,
    pub pauses: bool,
}

/// one replica's script respecting the watermark contract: after Wm(w) no element with ts <= w
pub fn gen_script(t: &mut Tape, next_id: &mut u64, o: &ScriptOpts, empty: bool, no_wm: bool) -> Vec<Ev> {
    let mut out = vec![];
    if empty {
        return out;
    }
    let mut clock: i64 = o.bound + t.draw(20) as i64;
    let mut last_wm: i64 = -1;
    for i in 0..o.per_replica {
        // advance the clock
        let step = if o.gaps && t.draw(12) == 11 {
            50 + t.draw(400) as i64
        } else {
            t.draw(4) as i64
        };
        clock += step;
        let d = if o.bound > 0 { t.draw(o.bound as u32 + 1) as i64 } else { 0 };
        let ts = (clock - d).max(last_wm + 1).max(0);
        let id = *next_id;
        *next_id += 1;
        let mut e = E::new(id, t.draw(o.keys.max(1) as u32) as u16, t.draw(41) as i64 - 20);
        e.ts = ts;
        out.push(Ev::El(e));
        if o.pauses && t.draw(15) == 14 {
            out.push(Ev::Pause([10u64, 1000, 60_000][t.draw(3) as usize]));
        }
        if !no_wm && o.wm_every > 0 && (i + 1) % o.wm_every == 0 {
            // everything emitted later has ts >= clock - bound
            let safe = clock - o.bound - 1;
            let mut w = safe;
            if o.align > 0 {
                match t.draw(4) {
                    // exactly on a window boundary, one before, one after (when still safe)
                    1 => w = safe / o.align * o.align,
                    2 => w = safe / o.align * o.align - 1,
                    3 => w = (safe / o.align * o.align + 1).min(safe),
                    _ => {}
                }
            }
            if w > last_wm {
                out.push(Ev::Wm(w));
                last_wm = w;
            }
        }
    }
    out
}

pub fn gen_scripted_source(g: &mut Gen, o: &ScriptOpts, repl: Repl) -> usize {
    let n = repl.count(&g.layout) as usize;
    let mut scripts = vec![];
    for r in 0..n {
        let empty = n > 1 && g.t.draw(6) == 5;
        let no_wm = n > 1 && r > 0 && g.t.draw(8) == 7;
        let mut id = g.next_id;
        scripts.push(gen_script(g.t, &mut id, o, empty, no_wm));
        g.next_id = id;
    }
    // one origin of the time axis per scenario: the watermark contract is translation invariant
    let base = match g.ts_base {
        Some(b) => b,
        None => {
            let b = [0i64, 0, 0, 1000, 7, -1_000_000_000][g.t.draw(6) as usize];
            g.ts_base = Some(b);
            b
        }
    };
    if base != 0 {
        for s in scripts.iter_mut() {
            for ev in s.iter_mut() {
                match ev {
                    Ev::El(e) => e.ts -= base,
                    Ev::Wm(w) => *w -= base,
                    _ => {}
                }
            }
        }
    }
    let total: usize = scripts.iter().map(|s| s.len()).sum();
    let si = g.sources.len();
    g.sources.push(Src::Scripted(scripts, repl));
    g.steps.push(Step::Source(si));
    g.attrs.push(Some(Attr {
        repl,
        depth: 0,
        len: total,
        keys: o.keys as usize,
    }));
    g.attrs.len() - 1
}

fn timed_profile(family: &'static str) -> Profile {
    let mut p = Profile::pipe();
    p.family = family;
    p.sinks = &[SinkKind::CollectVec];
    p
}

pub fn script_opts(t: &mut Tape, align: i64) -> ScriptOpts {
    ScriptOpts {
        per_replica: [0usize, 1, 3, 10, 40, 120][t.draw(6) as usize],
        keys: [1u16, 2, 5, 30][t.draw(4) as usize],
        bound: [0i64, 1, 5, 20][t.draw(4) as usize],
        wm_every: [0usize, 1, 3, 10][t.draw(4) as usize],
        align,
        gaps: t.draw(2) == 1,
        pauses: t.draw(3) == 2,
    }
}

/// C06 / C16(reorder) / C17: timestamped pipelines of time-aware operators
pub fn gen_timed(t: &mut Tape, want_window: bool) -> Scenario {
    let mut g = Gen::new(t, timed_profile("timed"));
    let size = [1i64, 2, 5, 10, 50][g.t.draw(5) as usize];
    let o = script_opts(g.t, size);
    let nsrc = 1 + g.t.draw(2) as usize;
    for _ in 0..nsrc {
        let repl = if g.t.draw(4) == 0 { Repl::One } else { Repl::Unlimited };
        gen_scripted_source(&mut g, &o, repl);
    }
    if g.t.draw(4) == 3 {
        // timestamped stream inside a replay body: the frontier must restart in every round
        let open = g.open();
        let i = open[g.t.draw(open.len() as u32) as usize];
        let i = g.unlimited(i);
        let mut body = vec![];
        let mut cur = 0usize;
        for _ in 0..1 + g.t.draw(3) {
            let op = match g.t.draw(if want_window { 8 } else { 6 }) {
                0 | 1 => UnOp::Shuffle,
                2 => UnOp::Gb(GbForm::KeyedMap, AggFn::Sum),
                3 => UnOp::Map(MapFn::Add(1)),
                4 => UnOp::Reorder,
                5 => UnOp::Batch(gen_bm(g.t, true)),
                6 => UnOp::Win(WinKind::EventTumbling { size }, WinAgg::Chain),
                _ => {
                    let slide = 1 + g.t.draw(size as u32) as i64;
                    UnOp::Win(WinKind::EventSliding { size, slide }, WinAgg::Chain)
                }
            };
            body.push(Step::Un(cur, op));
            cur += 1;
        }
        body.push(Step::Un(cur, UnOp::DropTs));
        cur += 1;
        let a = g.attrs[i].take().unwrap();
        let spec = LoopSpec {
            iterate: false,
            rounds: 2 + g.t.draw(2) as usize,
            stop_mod: 0,
            stop_rem: 0,
            agg: AggFn::Sum,
            body,
            body_out: cur,
            use_state: false,
            cond_sleep_us: [0u64, 100, 30_000][g.t.draw(3) as usize],
        };
        g.steps.push(Step::Loop(i, spec));
        g.attrs.push(Some(Attr {
            repl: Repl::One,
            depth: a.depth,
            len: 1,
            keys: 1,
        }));
        return g.finish();
    }
    let nsteps = 1 + g.t.draw(5) as usize;
    for _ in 0..nsteps {
        let open = g.open();
        let i = open[g.t.draw(open.len() as u32) as usize];
        match g.t.draw(if want_window { 11 } else { 9 }) {
            0 => {
                g.un(i, UnOp::Shuffle);
            }
            1 => {
                let op = g.gen_map();
                // rekeying keeps timestamps; KeyByDrop too
                g.un(i, op);
            }
            2 => {
                let forms = [GbForm::Fold, GbForm::FoldAssoc, GbForm::Reduce, GbForm::KeyedMap];
                let f = forms[g.t.draw(4) as usize];
                let a = [AggFn::Sum, AggFn::Min, AggFn::Max, AggFn::Xor][g.t.draw(4) as usize];
                g.un(i, UnOp::Gb(f, a));
            }
            3 => {
                g.un(i, UnOp::Reorder);
            }
            4 => {
                if open.len() >= 2 {
                    let j = *open.iter().find(|&&x| x != i).unwrap();
                    // zip of two timestamped streams: a pair carries the newer of its two
                    // timestamps (one member may have waited in the stash across watermarks)
                    let op = if g.t.draw(3) == 2 { BinOp::Zip } else { BinOp::Merge };
                    g.bin(i, j, op);
                } else {
                    g.un(i, UnOp::Shuffle);
                }
            }
            5 => {
                g.un(i, UnOp::FlatMap(FlatFn::Copies(2)));
            }
            6 => {
                let a = [AggFn::Sum, AggFn::Max][g.t.draw(2) as usize];
                let f = [GlForm::Fold, GlForm::FoldAssoc][g.t.draw(2) as usize];
                g.un(i, UnOp::Gl(f, a));
            }
            7 => {
                let r = g.gen_repl(i);
                g.un(i, r);
            }
            8 => {
                let bm = gen_bm(g.t, true);
                g.un(i, UnOp::Batch(bm));
            }
            _ => {
                let kind = match g.t.draw(3) {
                    0 => WinKind::EventTumbling { size },
                    1 => WinKind::EventSliding {
                        size,
                        slide: 1 + g.t.draw(size as u32) as i64,
                    },
                    _ => WinKind::Count {
                        n: 1 + g.t.draw(4) as usize,
                        s: 1,
                        exact: g.t.draw(2) == 1,
                    },
                };
                let kind = match kind {
                    WinKind::Count { n, .. } => WinKind::Count {
                        n,
                        s: 1 + g.t.draw(n as u32) as usize,
                        exact: g.t.draw(2) == 1,
                    },
                    k => k,
                };
                g.un(i, UnOp::Win(kind, WinAgg::Chain));
            }
        }
    }
    g.finish()
}

/// C13: scripted sources -> (light preprocessing) -> event-time / transaction window -> collect_vec
pub fn gen_evwin(t: &mut Tape) -> Scenario {
    let mut g = Gen::new(t, timed_profile("evwin"));
    let size = [1i64, 2, 3, 7, 10, 50][g.t.draw(6) as usize];
    let mut o = script_opts(g.t, size);
    if o.wm_every == 0 && g.t.draw(3) != 0 {
        o.wm_every = 2;
    }
    let repl = if g.t.draw(4) == 0 { Repl::One } else { Repl::Unlimited };
    let mut s = gen_scripted_source(&mut g, &o, repl);
    if g.t.draw(3) == 2 {
        let o2 = script_opts(g.t, size);
        let s2 = gen_scripted_source(&mut g, &o2, Repl::Unlimited);
        s = g.bin(s, s2, BinOp::Merge);
    }
    for _ in 0..g.t.draw(3) {
        match g.t.draw(4) {
            0 => s = g.un(s, UnOp::Shuffle),
            1 => {
                let b = g.t.draw(8) as u8;
                s = g.un(s, UnOp::Filter(PredFn::IdBit(b)))
            }
            2 => {
                let m = [1u16, 3, 20][g.t.draw(3) as usize];
                s = g.un(s, UnOp::Map(MapFn::Rekey(m, 0)))
            }
            _ => {
                let bm = gen_bm(g.t, true);
                s = g.un(s, UnOp::Batch(bm));
            }
        }
    }
    let kind = match g.t.draw(4) {
        0 => WinKind::EventTumbling { size },
        1 | 2 => WinKind::EventSliding {
            size,
            slide: 1 + g.t.draw(size as u32) as i64,
        },
        _ => WinKind::Tx {
            m: 2 + g.t.draw(4) as i64,
            after: if g.t.draw(2) == 1 { Some(g.t.draw(2 * size as u32 + 1) as i64) } else { None },
        },
    };
    let all = g.t.draw(6) == 5;
    if g.t.draw(5) == 4 && !matches!(kind, WinKind::Tx { .. }) {
        // the window inside a replay body: every round must start from fresh window managers
        let s2 = g.unlimited(s);
        let a = g.attrs[s2].take().unwrap();
        let spec = LoopSpec {
            iterate: false,
            rounds: 2 + g.t.draw(2) as usize,
            stop_mod: 0,
            stop_rem: 0,
            agg: AggFn::Sum,
            body: vec![Step::Un(0, UnOp::Win(kind, WinAgg::Chain)), Step::Un(1, UnOp::DropTs)],
            body_out: 2,
            use_state: false,
            cond_sleep_us: 0,
        };
        g.steps.push(Step::Loop(s2, spec));
        g.attrs.push(Some(Attr {
            repl: Repl::One,
            depth: a.depth,
            len: 1,
            keys: 1,
        }));
        return g.finish();
    }
    let w = if all {
        g.un(s, UnOp::WinAll(kind, WinAgg::Members))
    } else {
        g.un(s, UnOp::Win(kind, WinAgg::Members))
    };
    g.attrs[w].take();
    g.steps.push(Step::Sink(w, SinkKind::CollectVec));
    g.finish()
}

/// C12: keyed count windows over plain (or timestamped) streams, optionally inside replay
pub fn gen_cwin(t: &mut Tape) -> Scenario {
    let mut p = Profile::pipe();
    p.family = "cwin";
    p.sinks = &[SinkKind::CollectVec];
    let mut g = Gen::new(t, p);
    let n = 1 + g.t.draw(12) as usize;
    let s = 1 + g.t.draw(n as u32) as usize;
    let exact = g.t.draw(2) == 1;
    let keys = [1u16, 2, 4, 40][g.t.draw(4) as usize];
    let len = [0usize, 1, 3, 11, 40, 160, 600][g.t.draw(7) as usize];
    let par = g.t.draw(3) != 0;
    // a quarter of the runs feeds the window from a timestamped source that also emits
    // watermarks: count windows ignore time, the markers must not disturb the groups
    let timed = g.t.draw(4) == 3;
    let mut st = if timed {
        let mut o = script_opts(g.t, 1);
        o.keys = keys;
        if o.wm_every == 0 {
            o.wm_every = 1 + g.t.draw(3) as usize;
        }
        let repl = if par { Repl::Unlimited } else { Repl::One };
        gen_scripted_source(&mut g, &o, repl)
    } else {
        g.add_source(par, len, keys)
    };
    for _ in 0..g.t.draw(3) {
        match g.t.draw(3) {
            0 => st = g.un(st, UnOp::Shuffle),
            1 if timed => st = g.un(st, UnOp::Map(MapFn::Add(1))),
            1 => {
                let op = g.gen_map();
                st = g.un(st, op);
            }
            _ => {
                let bm = gen_bm(g.t, true);
                st = g.un(st, UnOp::Batch(bm));
            }
        }
    }
    let aggs = [
        WinAgg::Chain,
        WinAgg::Count,
        WinAgg::Sum,
        WinAgg::Min,
        WinAgg::Max,
        WinAgg::First,
        WinAgg::Last,
    ];
    let agg = aggs[g.t.draw(aggs.len() as u32) as usize];
    let win = UnOp::Win(WinKind::Count { n, s, exact }, agg);
    if g.t.draw(3) == 2 {
        // inside a replay body: repeated iterations over the same input
        let st2 = g.unlimited(st);
        let a = g.attrs[st2].take().unwrap();
        // replay presents the same input every round, iterate feeds the windows back: different
        // per-key lengths (and leftovers) in every round
        let iterate = g.t.draw(2) == 1 && !timed;
        let mut body = vec![Step::Un(0, win)];
        let mut body_out = 1;
        if timed {
            // the end of a loop body does not take timestamped elements
            body.push(Step::Un(1, UnOp::DropTs));
            body_out = 2;
        }
        if iterate {
            body.push(Step::Un(body_out, UnOp::Shuffle));
            body_out += 1;
        }
        let spec = LoopSpec {
            iterate,
            rounds: 1 + g.t.draw(3) as usize,
            stop_mod: 0,
            stop_rem: 0,
            agg: AggFn::Count,
            body,
            body_out,
            use_state: false,
            cond_sleep_us: 0,
        };
        g.steps.push(Step::Loop(st2, spec));
        g.attrs.push(Some(Attr {
            repl: Repl::One,
            depth: a.depth,
            len: 1,
            keys: 1,
        }));
        if iterate {
            g.attrs.push(Some(Attr {
                repl: Repl::Unlimited,
                depth: a.depth,
                len: a.len,
                keys: a.keys,
            }));
        }
    } else {
        g.un(st, win);
    }
    g.finish()
}

/// C14: channel source fed by a simulated client with bursts and pauses -> processing-time or
/// session window -> collect_vec
pub fn gen_ptwin(t: &mut Tape) -> Scenario {
    let mut p = Profile::pipe();
    p.family = "ptwin";
    p.sinks = &[SinkKind::CollectVec];
    p.faults = &["exec_cost", "stall", "weight", "clock_skew", "select_bias"];
    let mut g = Gen::new(t, p);
    let unit_us = [1_000u64, 10_000, 1_000_000][g.t.draw(3) as usize];
    let kind = match g.t.draw(3) {
        0 => WinKind::Proc {
            size_us: unit_us,
            slide_us: unit_us,
        },
        1 => {
            let div = 1 + g.t.draw(4) as u64;
            WinKind::Proc {
                size_us: unit_us,
                slide_us: (unit_us / div).max(1),
            }
        }
        _ => WinKind::Session { gap_us: unit_us },
    };
    let keys = [1u16, 2, 5][g.t.draw(3) as usize];
    let nb = 1 + g.t.draw(8) as usize;
    let mut bursts = vec![];
    for _ in 0..nb {
        // pauses shorter than, equal to, and much longer than the window size / gap
        let pause = match g.t.draw(6) {
            0 => 0,
            1 => unit_us / 10,
            2 => unit_us,
            3 => unit_us + 1,
            4 => unit_us * 3 + g.t.draw(1000) as u64,
            _ => unit_us / 2,
        };
        let n = [0usize, 1, 2, 5, 20][g.t.draw(5) as usize];
        let b = g.elems(n, keys);
        bursts.push((pause, b));
    }
    let si = g.sources.len();
    let total: usize = bursts.iter().map(|b| b.1.len()).sum();
    g.sources.push(Src::Channel(bursts));
    g.steps.push(Step::Source(si));
    g.attrs.push(Some(Attr {
        repl: Repl::One,
        depth: 0,
        len: total,
        keys: keys as usize,
    }));
    let mut s = g.attrs.len() - 1;
    if g.t.draw(3) == 2 {
        s = g.un(s, UnOp::Shuffle);
    }
    if g.t.draw(4) == 3 {
        // the window inside a replay body: the first round sees the client's timing, the later
        // rounds the stored input at full speed; every round must flush all of its windows and
        // start the next one empty
        let s2 = g.unlimited(s);
        let a = g.attrs[s2].take().unwrap();
        let spec = LoopSpec {
            iterate: false,
            rounds: 2 + g.t.draw(3) as usize,
            stop_mod: 0,
            stop_rem: 0,
            agg: AggFn::Count,
            body: vec![Step::Un(0, UnOp::Win(kind, WinAgg::Members))],
            body_out: 1,
            use_state: false,
            cond_sleep_us: [0u64, 0, unit_us / 3, unit_us * 2][g.t.draw(4) as usize],
        };
        g.steps.push(Step::Loop(s2, spec));
        g.attrs.push(Some(Attr { repl: Repl::One, depth: a.depth, len: 1, keys: 1 }));
        let st = g.attrs.len() - 1;
        g.attrs[st].take();
        g.steps.push(Step::Sink(st, SinkKind::CollectVec));
        return g.finish();
    }
    let w = g.un(s, UnOp::Win(kind, WinAgg::Members));
    g.attrs[w].take();
    g.steps.push(Step::Sink(w, SinkKind::CollectVec));
    g.finish()
}

/// C16: single-replica chains; every batch mode; the sink sequence must equal the iterator chain
pub fn gen_seq(t: &mut Tape) -> Scenario {
    let mut p = Profile::pipe();
    p.family = "seq";
    p.sinks = &[SinkKind::CollectVec, SinkKind::Collect, SinkKind::CollectChannel];
    let mut g = Gen::new(t, p);
    // a third of the runs on a single core (one host or one local core): every block has one
    // replica there, so shuffles are sequential paths too
    if g.t.draw(3) == 2 {
        g.layout = if g.t.draw(2) == 1 { Layout::Local(1) } else { Layout::Remote(vec![1]) };
    }
    let single = g.layout.total_cores() == 1;
    let n = g.gen_len().min(3000);
    let keys = g.gen_keys();
    let mut s = g.add_source(false, n, keys);
    let nsteps = g.t.draw(9) as usize;
    for _ in 0..nsteps {
        match g.t.draw(if single { 6 } else { 4 }) {
            4 | 5 => s = g.un(s, UnOp::Shuffle),
            0 | 1 => {
                let op = g.gen_map();
                s = g.un(s, op);
            }
            2 => s = g.un(s, UnOp::Repl(Repl::One)),
            _ => {
                let bm = gen_bm(g.t, false);
                s = g.un(s, UnOp::Batch(bm));
            }
        }
    }
    let _ = s;
    g.finish()
}

// ------------------------------------------------------------------------------------------
// loops (C10, C11)
// ------------------------------------------------------------------------------------------

pub struct LoopOpts {
    pub side: bool,
    pub nested: bool,
}

struct Body {
    steps: Vec<Step>,
    cur: usize,
    nlocal: usize,
    repl: Repl,
}

impl Body {
    fn un(&mut self, op: UnOp) {
        self.repl = match &op {
            UnOp::Shuffle | UnOp::Gb(..) | UnOp::Broadcast | UnOp::Win(..) | UnOp::Extra(ExtraOp::KeyedChain(..)) | UnOp::Extra(ExtraOp::UniqueKeys) => Repl::Unlimited,
            UnOp::Repl(r) | UnOp::RepartBy(r, _) => *r,
            UnOp::Gl(..) | UnOp::WinAll(..) => Repl::One,
            _ => self.repl,
        };
        self.steps.push(Step::Un(self.cur, op));
        self.cur = self.nlocal;
        self.nlocal += 1;
    }
    fn unlimited(&mut self) {
        if self.repl != Repl::Unlimited {
            self.un(UnOp::Shuffle);
        }
    }
}

fn gen_spec(g: &mut Gen, depth: usize, in_len: usize, o: &LoopOpts) -> LoopSpec {
    let iterate = g.t.draw(2) == 1;
    let rounds = 1 + g.t.draw(if depth == 0 { 5 } else { 4 }) as usize;
    let agg = [AggFn::Sum, AggFn::Count, AggFn::Xor, AggFn::Max][g.t.draw(4) as usize];
    let (stop_mod, stop_rem) = if g.t.draw(if depth > 0 { 2 } else { 3 }) == 1 {
        (2 + g.t.draw(3) as i64, g.t.draw(2) as i64)
    } else {
        (0, 0)
    };
    let use_state = depth == 0 && g.t.draw(2) == 1;
    let cond_sleep_us = [0u64, 0, 200, 20_000, 120_000][g.t.draw(5) as usize];
    let mut b = Body {
        steps: vec![],
        cur: 0,
        nlocal: 1,
        repl: Repl::Unlimited,
    };
    let nbody = 1 + g.t.draw(3) as usize;
    let mut side_used = false;
    let mut nested_used = false;
    for _ in 0..nbody {
        let mut k = g.t.draw(10);
        if k >= 6 && k <= 8 && !(o.side && depth == 0 && !side_used) {
            k = g.t.draw(6);
        }
        if k == 9 && !(o.nested && depth == 0 && !nested_used) {
            k = g.t.draw(6);
        }
        match k {
            0 | 1 => {
                let op = match g.gen_map() {
                    UnOp::FlatMap(_) if iterate => UnOp::Map(MapFn::Add(1)),
                    op => op,
                };
                b.un(op);
            }
            2 => b.un(UnOp::Shuffle),
            3 if g.t.draw(4) == 3 => {
                // a count window in the body: its slots are per-round state
                let op = match g.gen_count_window() {
                    UnOp::WinAll(k, a) | UnOp::Win(k, a) => {
                        let a = if iterate && a == WinAgg::Chain { WinAgg::Sum } else { a };
                        UnOp::Win(k, a)
                    }
                    op => op,
                };
                b.un(op);
            }
            3 => {
                let op = match g.gen_gb() {
                    UnOp::Gb(GbForm::RichCounter, a) => UnOp::Gb(GbForm::Fold, a),
                    op => op,
                };
                b.un(op);
            }
            4 => {
                let bm = gen_bm(g.t, true);
                b.un(UnOp::Batch(bm));
            }
            5 => {
                let op = g.gen_gl();
                b.un(op);
            }
            6..=8 => {
                // side input: a stream built outside the loop
                let mut n = [0usize, 1, 3, 12, 40, 300][g.t.draw(6) as usize];
                let mut keys = g.gen_keys();
                let par = g.t.draw(2) == 1;
                // a join inside an iterate feeds its own output back: keep the side's keys unique
                // so that the stream grows by at most |side| per round
                let unique_side = iterate && k == 7;
                if unique_side {
                    n = n.min(40);
                    keys = 400;
                }
                let mut sid = g.add_source(par, n, keys);
                if unique_side {
                    if let Some(Src::Iter(v)) | Some(Src::ParIter(v)) = g.sources.last_mut() {
                        for (i, e) in v.iter_mut().enumerate() {
                            e.key = i as u16;
                        }
                    }
                }
                if g.t.draw(3) == 2 {
                    sid = g.un(sid, UnOp::Map(MapFn::Add(3)));
                }
                let sid = g.unlimited(sid);
                g.attrs[sid].take();
                let est = in_len * 2 * n / (keys as usize).max(1);
                let bop = match k {
                    6 => BinOp::Merge,
                    // the keyed-stream joins keep their own per-round flags: every third join
                    7 if ((!iterate && est <= 4000) || unique_side) && g.t.draw(3) == 2 => {
                        BinOp::Join([JoinKind::Inner, JoinKind::Outer][g.t.draw(2) as usize], JoinForm::Keyed)
                    }
                    7 if (!iterate && est <= 4000) || unique_side => g.gen_join(),
                    7 => BinOp::Merge,
                    _ => BinOp::Zip,
                };
                if matches!(bop, BinOp::Merge | BinOp::Zip) {
                    b.unlimited();
                }
                b.repl = match &bop {
                    BinOp::Join(_, JoinForm::BcastHash) | BinOp::Join(_, JoinForm::BcastSortMerge) => b.repl,
                    BinOp::Zip => Repl::One,
                    _ => Repl::Unlimited,
                };
                // zip: loop stream on either side
                // zip and joins: the loop stream on either side (with the side input on the left
                // the cached side ends first in every round after the first)
                if g.t.draw(2) == 1 {
                    if matches!(bop, BinOp::Join(..)) {
                        b.repl = Repl::Unlimited;
                    }
                    b.steps.push(Step::Bin(SIDE_BASE + sid, b.cur, bop));
                } else {
                    b.steps.push(Step::Bin(b.cur, SIDE_BASE + sid, bop));
                }
                b.cur = b.nlocal;
                b.nlocal += 1;
                side_used = true;
            }
            _ => {
                // nested loop
                b.unlimited();
                let inner = gen_spec(g, depth + 1, in_len, o);
                let it = inner.iterate;
                b.steps.push(Step::Loop(b.cur, inner));
                if it {
                    let st = b.nlocal;
                    let out = b.nlocal + 1;
                    b.nlocal += 2;
                    b.steps.push(Step::Bin(st, out, BinOp::Merge));
                    b.cur = b.nlocal;
                    b.nlocal += 1;
                } else {
                    b.cur = b.nlocal;
                    b.nlocal += 1;
                }
                b.repl = Repl::Unlimited;
                nested_used = true;
            }
        }
    }
    if iterate {
        b.unlimited();
    }
    LoopSpec {
        iterate,
        rounds,
        stop_mod,
        stop_rem,
        agg,
        body: b.steps,
        body_out: b.cur,
        use_state,
        cond_sleep_us,
    }
}

pub fn gen_loopfam(t: &mut Tape, o: LoopOpts) -> Scenario {
    let mut p = Profile::pipe();
    p.family = "loop";
    p.small_batches = true;
    p.remote_bias = 45;
    let mut g = Gen::new(t, p);
    // a quarter of the runs on one core, where order (and thus positional zip) is determined
    if g.t.draw(4) == 3 {
        g.layout = Layout::Local(1);
    }
    let n = [0usize, 1, 5, 20, 60, 200][g.t.draw(6) as usize];
    let keys = g.gen_keys();
    let par = g.t.draw(3) != 0;
    let mut s = g.add_source(par, n, keys);
    if g.t.draw(3) == 2 {
        let op = g.gen_map();
        s = g.un(s, op);
    }
    let s = g.unlimited(s);
    let spec = gen_spec(&mut g, 0, n, &o);
    let a = g.attrs[s].take().unwrap();
    let it = spec.iterate;
    g.steps.push(Step::Loop(s, spec));
    g.attrs.push(Some(Attr {
        repl: Repl::One,
        depth: 0,
        len: 1,
        keys: 1,
    }));
    if it {
        g.attrs.push(Some(Attr {
            repl: Repl::Unlimited,
            depth: 0,
            len: a.len * 2,
            keys: a.keys.max(50),
        }));
    }
    // sometimes keep processing the outputs
    if g.t.draw(3) == 2 {
        let open = g.open();
        let i = open[g.t.draw(open.len() as u32) as usize];
        let op = g.gen_map();
        g.un(i, op);
    }
    g.finish()
}

/// C10, targeted: a loop whose body reads its state and contains a nested loop with a shuffle, on
/// several hosts, with slow links / stalled threads - the inner body reads the *outer* state
pub fn gen_nested_state(t: &mut Tape) -> Scenario {
    let mut p = Profile::pipe();
    p.family = "loop-nested-state";
    p.small_batches = true;
    let mut g = Gen::new(t, p);
    let nh = 2 + g.t.draw(3) as usize;
    g.layout = Layout::Remote((0..nh).map(|_| 1 + g.t.draw(2) as u64).collect());
    let n = [5usize, 20, 60][g.t.draw(3) as usize];
    let s = g.add_source(true, n, 7);
    let inner = LoopSpec {
        iterate: g.t.draw(2) == 1,
        rounds: 1 + g.t.draw(3) as usize,
        stop_mod: 0,
        stop_rem: 0,
        agg: AggFn::Sum,
        body: vec![Step::Un(0, UnOp::Shuffle), Step::Un(1, UnOp::Map(MapFn::Add(1)))],
        body_out: 2,
        use_state: false,
        cond_sleep_us: 0,
    };
    let inner_it = inner.iterate;
    let mut body = vec![Step::Loop(0, inner)];
    let mut cur = 1;
    if inner_it {
        body.push(Step::Bin(1, 2, BinOp::Merge));
        cur = 3;
    }
    body.push(Step::Un(cur, UnOp::Shuffle));
    cur += 1;
    let spec = LoopSpec {
        iterate: false,
        rounds: 2 + g.t.draw(3) as usize,
        stop_mod: 0,
        stop_rem: 0,
        agg: [AggFn::Sum, AggFn::Count, AggFn::Xor][g.t.draw(3) as usize],
        body,
        body_out: cur,
        use_state: true,
        cond_sleep_us: [0u64, 200, 20_000][g.t.draw(3) as usize],
    };
    let a = g.attrs[s].take().unwrap();
    g.steps.push(Step::Loop(s, spec));
    g.attrs.push(Some(Attr { repl: Repl::One, depth: a.depth, len: 1, keys: 1 }));
    let mut sc = g.finish();
    // slow links and stalled threads are what separates the data path from the state feedback
    for f in ["stall", "weight", "tcp_latency", "exec_cost"] {
        sc.knobs.rates.entry(f.to_string()).or_insert(150);
    }
    sc
}

/// C01/C10, targeted: a loop whose body reads the loop state behind a shuffle, on several hosts,
/// with adaptive batching and a pause between rounds longer than the batch delay (so that idle
/// flushes fall between two rounds) and slow links (so that hosts install the new state at
/// different times)
pub fn gen_state_skew(t: &mut Tape) -> Scenario {
    let mut p = Profile::pipe();
    p.family = "loop-state-skew";
    p.small_batches = true;
    let mut g = Gen::new(t, p);
    let nh = 2 + g.t.draw(3) as usize;
    g.layout = Layout::Remote((0..nh).map(|_| 1 + g.t.draw(2) as u64).collect());
    let n = [5usize, 20, 60, 200][g.t.draw(4) as usize];
    let s = g.add_source(true, n, 7);
    let s = if g.t.draw(2) == 1 { g.un(s, UnOp::Shuffle) } else { s };
    let mut body = vec![Step::Un(0, UnOp::Shuffle)];
    let mut cur = 1;
    for _ in 0..g.t.draw(3) {
        let op = match g.t.draw(3) {
            0 => UnOp::Map(MapFn::Add(1)),
            1 => UnOp::Shuffle,
            _ => UnOp::Gb(GbForm::KeyedMap, AggFn::Sum),
        };
        body.push(Step::Un(cur, op));
        cur += 1;
    }
    let d_us = [1_000u64, 5_000, 50_000][g.t.draw(3) as usize];
    let iterate = g.t.draw(3) == 2;
    // in half of the runs the state is also read in a block headed by a binary operator that
    // combines the loop stream with a side input, on either side: that block's input must wait
    // for the new state like every other block of the body
    if g.t.draw(2) == 1 {
        let ns = [1usize, 3, 12][g.t.draw(3) as usize];
        let par = g.t.draw(2) == 1;
        let sid = g.add_source(par, ns, 7);
        let sid = g.unlimited(sid);
        g.attrs[sid].take();
        let bop = if iterate {
            BinOp::Merge
        } else {
            match g.t.draw(4) {
                0 => BinOp::Merge,
                1 => BinOp::Join(JoinKind::Inner, JoinForm::Shortcut),
                2 => BinOp::Join(JoinKind::Left, JoinForm::HashHash),
                _ => BinOp::Join(JoinKind::Inner, JoinForm::Keyed),
            }
        };
        if g.t.draw(2) == 1 {
            body.push(Step::Bin(SIDE_BASE + sid, cur, bop));
        } else {
            body.push(Step::Bin(cur, SIDE_BASE + sid, bop));
        }
        cur += 1;
        if g.t.draw(2) == 1 {
            body.push(Step::Un(cur, UnOp::Map(MapFn::Add(1))));
            cur += 1;
        }
    }
    let spec = LoopSpec {
        iterate,
        rounds: 2 + g.t.draw(3) as usize,
        stop_mod: 0,
        stop_rem: 0,
        agg: [AggFn::Sum, AggFn::Count, AggFn::Xor][g.t.draw(3) as usize],
        body,
        body_out: cur,
        use_state: true,
        cond_sleep_us: d_us * [3u64, 10][g.t.draw(2) as usize],
    };
    let a = g.attrs[s].take().unwrap();
    g.steps.push(Step::Loop(s, spec));
    g.attrs.push(Some(Attr { repl: Repl::One, depth: a.depth, len: 1, keys: 1 }));
    if iterate {
        g.attrs.push(Some(Attr { repl: Repl::Unlimited, depth: a.depth, len: a.len * 2, keys: a.keys.max(50) }));
    }
    let nb = [1usize, 4, 100, 1024][g.t.draw(4) as usize];
    let mut sc = g.finish();
    sc.bm = if d_us == 50_000 && nb == 1024 { Bm::Default } else { Bm::Adaptive(nb, d_us) };
    for f in ["stall", "weight", "tcp_latency", "exec_cost"] {
        sc.knobs.rates.entry(f.to_string()).or_insert(150);
    }
    sc
}

/// C16, targeted: timestamped sources -> (merge) -> block boundary -> reorder() -> collect_vec under
/// every batch mode: the batcher in front of reorder must keep data and watermarks in order
pub fn gen_reorder(t: &mut Tape) -> Scenario {
    let mut g = Gen::new(t, timed_profile("reorder"));
    let align = [1i64, 5, 50][g.t.draw(3) as usize];
    let o = script_opts(g.t, align);
    let repl = if g.t.draw(3) == 0 { Repl::One } else { Repl::Unlimited };
    let mut s = gen_scripted_source(&mut g, &o, repl);
    match g.t.draw(4) {
        2 => {
            let o2 = script_opts(g.t, 5);
            let s2 = gen_scripted_source(&mut g, &o2, Repl::Unlimited);
            s = g.bin(s, s2, BinOp::Merge);
        }
        3 => {
            // zip of two timestamped streams in front of reorder: the pairs must respect the
            // watermarks zip forwards, whichever side is ahead
            let mut o2 = script_opts(g.t, 5);
            if o2.wm_every == 0 {
                o2.wm_every = 2;
            }
            let s2 = gen_scripted_source(&mut g, &o2, Repl::Unlimited);
            s = g.bin(s, s2, BinOp::Zip);
        }
        _ => {}
    }
    for _ in 0..g.t.draw(3) {
        let op = match g.t.draw(4) {
            0 => UnOp::Map(MapFn::Add(1)),
            1 => UnOp::Shuffle,
            2 => UnOp::Gb(GbForm::KeyedMap, AggFn::Sum),
            _ => {
                let bm = gen_bm(g.t, true);
                UnOp::Batch(bm)
            }
        };
        s = g.un(s, op);
    }
    let s = g.un(s, UnOp::Shuffle);
    let s = g.un(s, UnOp::Reorder);
    if g.t.draw(3) == 2 {
        let s = g.un(s, UnOp::Shuffle);
        g.un(s, UnOp::Reorder);
    }
    let mut sc = g.finish();
    sc.bm = match sc.steps.len() % 3 {
        0 => Bm::Fixed([2usize, 3, 5, 16][sc.sources.len() % 4 + (sc.steps.len() / 3) % 2]),
        1 => gen_bm_of(sc.steps.len()),
        _ => sc.bm,
    };
    sc
}

fn gen_bm_of(k: usize) -> Bm {
    [Bm::Default, Bm::Single, Bm::Fixed(4), Bm::Adaptive(3, 1000), Bm::Adaptive(100, 5000)][k % 5]
}

/// C01/C04, targeted: iterate loops whose body has no repartition, fed with many small batches
/// (more batches per round than the feedback channel holds), several rounds
pub fn gen_iter_heavy(t: &mut Tape) -> Scenario {
    let mut p = Profile::pipe();
    p.family = "iterate-heavy";
    let mut g = Gen::new(t, p);
    let n = [40usize, 120, 400, 900][g.t.draw(4) as usize];
    let par = g.t.draw(3) != 0;
    let mut s = g.add_source(par, n, 9);
    if g.t.draw(2) == 1 {
        s = g.un(s, UnOp::Shuffle);
    }
    let s = g.unlimited(s);
    let mut body = vec![];
    let mut cur = 0;
    for _ in 0..1 + g.t.draw(3) {
        let op = match g.t.draw(4) {
            0 | 1 => UnOp::Map(MapFn::Add(1)),
            2 => UnOp::Filter(PredFn::True),
            _ => UnOp::KeyByDrop,
        };
        body.push(Step::Un(cur, op));
        cur += 1;
    }
    let spec = LoopSpec {
        iterate: true,
        rounds: 2 + g.t.draw(3) as usize,
        stop_mod: 0,
        stop_rem: 0,
        agg: [AggFn::Sum, AggFn::Count, AggFn::Xor][g.t.draw(3) as usize],
        body,
        body_out: cur,
        use_state: g.t.draw(2) == 1,
        cond_sleep_us: [0u64, 0, 300][g.t.draw(3) as usize],
    };
    let a = g.attrs[s].take().unwrap();
    g.steps.push(Step::Loop(s, spec));
    g.attrs.push(Some(Attr { repl: Repl::One, depth: a.depth, len: 1, keys: 1 }));
    g.attrs.push(Some(Attr { repl: Repl::Unlimited, depth: a.depth, len: a.len, keys: a.keys }));
    let k = g.t.draw(4);
    let mut sc = g.finish();
    sc.bm = [Bm::Single, Bm::Fixed(1), Bm::Fixed(2), Bm::Fixed(5)][k as usize];
    sc
}
